package main

// C13: slice and area lists.  Each encoder is interpreted in the bit-term domain (E2) on
// symbolic field values at a set of list shapes (number of entries, SD present/absent, ...)
// and its output octets are compared with the TS 24.501 layout; each decoder is interpreted on
// symbolic octets at concrete length octets and its result fields are compared with the octets
// the layout assigns to them.

import (
	"fmt"
	"go/token"
	"go/types"
	"strings"

	"golang.org/x/tools/go/ssa"
)

func init() {
	register("C13", func(w *World, r *Report, tier string) {
		propC13(w, r, tier)
		importStateless(w, r, tier, []string{"nasConvert/Snssai.go", "nasConvert/Nssai.go", "nasConvert/TaiList.go", "nasConvert/ServiceAreaList.go", "nasConvert/Ladn.go", "nasConvert/PlmnId.go"}, "list conversions")
	})
}

type listCtx struct {
	w *World
	r *Report
}

func (c *listCtx) fn(rel, name string) (*ssa.Function, string) {
	f := c.w.LookupFunc(rel, name)
	if f == nil {
		c.r.Fail("anchor", rel+"."+name, "missing", token.NoPos, "function not found", nil)
		return nil, ""
	}
	c.r.Fn(FuncName(f))
	return c.w.SSAFunc(f), FuncName(f)
}

func (c *listCtx) verdict(rule, fname, construct string, fn *ssa.Function, it *Interp, ok bool, msg string) {
	if len(it.Unsup) > 0 && ok {
		ok, msg = false, "undecided: "+strings.Join(it.Unsup, "; ")
	} else if len(it.Unsup) > 0 {
		msg += " (undecided: " + strings.Join(it.Unsup, "; ") + ")"
	}
	if !ok {
		c.r.Fail(rule, fname, construct, fn.Pos(), msg, nil)
		return
	}
	c.r.OK(rule)
	if n := len(c.r.Samples); n == 0 || c.r.lastSampleRule != rule {
		c.r.lastSampleRule = rule
		c.r.Sample(map[string]any{"rule": rule, "func": fname, "instance": construct, "verdict": "matches the specified layout / value for all values of the symbolic bits", "term_nodes": it.T.next})
	}
}

func newListInterp(w *World) *Interp {
	it := NewInterp(w)
	it.Fuel = 30000
	it.UseInitValues = true
	it.Premise = it.T.one
	return it
}

// sliceBytes reads the octets of a byte slice value.
func sliceBytes(it *Interp, st *state, v Value) ([]BV, bool) {
	sl, ok := v.(SliceV)
	if !ok || sl.Len < 0 {
		return nil, false
	}
	out := []BV{}
	if sl.Nil || sl.Obj == nil {
		return out, sl.Len <= 0
	}
	for i := 0; i < sl.Len; i++ {
		b, ok := it.load(st, it.sliceElemPtr(sl, i), u8T).(BV)
		if !ok {
			return nil, false
		}
		out = append(out, b)
	}
	return out, true
}

// hexBytes: the octets a string of 2n hexadecimal characters named name decodes to.
func hexBytes(it *Interp, name string, n int) []BV {
	var out []BV
	for i := 0; i < n; i++ {
		h := it.SrcBV(fmt.Sprintf("%s.h%d", name, 2*i), 4)
		l := it.SrcBV(fmt.Sprintf("%s.h%d", name, 2*i+1), 4)
		out = append(out, bvCat(h, l))
	}
	return out
}

func sameOctets(it *Interp, what string, got, want []BV) (bool, string) {
	if len(got) != len(want) {
		return false, fmt.Sprintf("%s is %d octets long, the layout has %d", what, len(got), len(want))
	}
	for i := range want {
		if ok, msg := sameBV(it, got[i], want[i]); !ok {
			return false, fmt.Sprintf("%s octet %d: %s", what, i+1, msg)
		}
	}
	return true, ""
}

// snssaiArg: models.Snssai{Sst, Sd} with a symbolic SST and an absent or 24-bit SD.
func snssaiArg(it *Interp, name string, withSD bool) (AggV, BV, []BV) {
	sst := it.SrcBV(name+".sst", 32)
	sst.Signed = true
	a := AggV{Cells: map[string]Value{".Sst": sst}}
	var sd []BV
	if withSD {
		a.Cells[".Sd"] = it.HexString(name+".sd", 6)
		sd = hexBytes(it, name+".sd", 3)
	} else {
		a.Cells[".Sd"] = StrV{Known: true, S: ""}
	}
	return a, sst, sd
}

// wantSnssai: length || SST || [SD]   (TS 24.501 9.11.2.8, value part preceded by its length)
func wantSnssai(it *Interp, first BV, sst BV, sd []BV) []BV {
	out := []BV{first, bvBits(sst, 0, 8)}
	return append(out, sd...)
}

func checkSnssaiEncoders(c *listCtx) {
	if fn, fname := c.fn("nasConvert", "SnssaiToNas"); fn != nil {
		for _, withSD := range []bool{false, true} {
			c.r.Site("lay.snssai")
			it := newListInterp(c.w)
			st := it.NewState()
			arg, sst, sd := snssaiArg(it, "s", withSD)
			res := it.Call(fn, []Value{arg}, st, 0)
			got, ok := sliceBytes(it, st, res)
			msg := "result not resolvable"
			if ok {
				want := wantSnssai(it, it.constBV(uint64(1+len(sd)), 8), sst, sd)
				ok, msg = sameOctets(it, "S-NSSAI", got, want)
			}
			c.verdict("lay.snssai", fname, fmt.Sprintf("SD present=%v", withSD), fn, it, ok, msg)
		}
	}
	if fn, fname := c.fn("nasConvert", "RejectedSnssaiToNas"); fn != nil {
		for _, withSD := range []bool{false, true} {
			c.r.Site("lay.snssai")
			it := newListInterp(c.w)
			st := it.NewState()
			arg, sst, sd := snssaiArg(it, "s", withSD)
			cause := bvZext(it, it.SrcBV("cause", 4), 8)
			res := it.Call(fn, []Value{arg, cause}, st, 0)
			got, ok := sliceBytes(it, st, res)
			msg := "result not resolvable"
			if ok {
				// length of rejected S-NSSAI (bits 8-5) || cause (bits 4-1)
				first := bvCat(it.constBV(uint64(1+len(sd)), 4), it.SrcBV("cause", 4))
				ok, msg = sameOctets(it, "rejected S-NSSAI", got, wantSnssai(it, first, sst, sd))
			}
			c.verdict("lay.snssai", fname, fmt.Sprintf("SD present=%v", withSD), fn, it, ok, msg)
		}
	}
}

// hexOf: is s the lowercase hexadecimal text of the octets bs?
func hexOf(it *Interp, v Value, bs []BV) (bool, string) {
	s, ok := v.(StrV)
	if !ok {
		return false, fmt.Sprintf("not a string (%T)", v)
	}
	if len(bs) == 0 {
		if (s.Known && s.S == "") || (s.Sym && len(s.Chars) == 0) {
			return true, ""
		}
		return false, "SD is set although the S-NSSAI carries none"
	}
	if !s.Sym || len(s.Chars) != 2*len(bs) {
		return false, fmt.Sprintf("not the %d-character hexadecimal text of the SD octets", 2*len(bs))
	}
	for i, b := range bs {
		for k, nib := range [][]*Node{b.B[4:8], b.B[0:4]} {
			ch := s.Chars[2*i+k]
			if ch.Hex == nil {
				return false, fmt.Sprintf("character %d is not a hexadecimal digit of the SD", 2*i+k)
			}
			if ok, msg := sameBV(it, BV{W: 4, B: ch.Hex}, BV{W: 4, B: nib}); !ok {
				return false, fmt.Sprintf("character %d: %s", 2*i+k, msg)
			}
		}
	}
	return true, ""
}

// snssaiFields reads Sst and Sd of a models.Snssai held in an aggregate or behind a pointer.
func snssaiFields(it *Interp, st *state, v Value) (sst Value, sd Value, present bool) {
	switch x := v.(type) {
	case AggV:
		return x.Cells[".Sst"], x.Cells[".Sd"], true
	case Ptr:
		i32 := types.Typ[types.Int32]
		return it.load(st, Ptr{Obj: x.Obj, Path: x.Path + ".Sst"}, i32), it.load(st, Ptr{Obj: x.Obj, Path: x.Path + ".Sd"}, types.Typ[types.String]), true
	}
	return nil, nil, false
}

func checkSnssaiField(it *Interp, st *state, what string, v Value, sstOctet *BV, sdOctets []BV) (bool, string) {
	sst, sd, present := snssaiFields(it, st, v)
	if sstOctet == nil {
		if present {
			return false, what + " is set although the contents carry none"
		}
		return true, ""
	}
	if !present {
		return false, what + " is missing"
	}
	want := bvZext(it, *sstOctet, 32)
	if ok, msg := sameBV(it, sst, want); !ok {
		return false, what + " SST: " + msg
	}
	if ok, msg := hexOf(it, sd, sdOctets); !ok {
		return false, what + " SD: " + msg
	}
	return true, ""
}

var snssaiLens = []int{1, 2, 4, 5, 8}

// snssaiLayout: which octets (1-based after the length octet) hold SST, SD, mapped SST, mapped SD.
func snssaiLayout(l int, oct func(i int) BV) (sst *BV, sd []BV, msst *BV, msd []BV) {
	o := func(i int) *BV { b := oct(i); return &b }
	switch l {
	case 1:
		return o(1), nil, nil, nil
	case 2:
		return o(1), nil, o(2), nil
	case 4:
		return o(1), []BV{oct(2), oct(3), oct(4)}, nil, nil
	case 5:
		return o(1), []BV{oct(2), oct(3), oct(4)}, o(5), nil
	case 8:
		return o(1), []BV{oct(2), oct(3), oct(4)}, o(5), []BV{oct(6), oct(7), oct(8)}
	}
	return nil, nil, nil, nil
}

func checkSnssaiDecoders(c *listCtx) {
	// snssaiToModels(length, buf): buf[0] is the length octet
	if fn, fname := c.fn("nasConvert", "snssaiToModels"); fn != nil {
		for l := 0; l < 256; l++ {
			valid := false
			for _, v := range snssaiLens {
				valid = valid || v == l
			}
			for _, short := range []bool{false, true} {
				if short && !valid {
					continue
				}
				c.r.Site("dec.snssai")
				it := newListInterp(c.w)
				st := it.NewState()
				n := l + 1
				if short {
					n = l
				}
				buf := it.SymbolicBytes(st, "buf", n)
				res := it.Call(fn, []Value{it.constBV(uint64(l), 8), buf}, st, 0)
				t, isT := res.(TupleV)
				ok, msg := isT && len(t) == 2, "result not resolvable"
				if ok {
					_, errNil := t[1].(NilV)
					switch {
					case (!valid || short) && errNil:
						ok, msg = false, fmt.Sprintf("length %d with %d octets available is accepted; the decoder must report it as an error", l, n)
					case valid && !short && !errNil:
						ok, msg = false, fmt.Sprintf("well-formed contents of length %d are rejected", l)
					case valid && !short:
						oct := func(i int) BV { return it.SrcBV(fmt.Sprintf("buf[%d]", i), 8) }
						sst, sd, msst, msd := snssaiLayout(l, oct)
						ag, _ := t[0].(AggV)
						if ok, msg = checkSnssaiField(it, st, "serving S-NSSAI", ag.Cells[".ServingSnssai"], sst, sd); ok {
							ok, msg = checkSnssaiField(it, st, "mapped HPLMN S-NSSAI", ag.Cells[".HomeSnssai"], msst, msd)
						}
					}
				}
				c.verdict("dec.snssai", fname, fmt.Sprintf("length=%d short=%v", l, short), fn, it, ok, msg)
			}
		}
	}
	// SnssaiToModels(*nasType.SNSSAI)
	if fn, fname := c.fn("nasConvert", "SnssaiToModels"); fn != nil {
		for _, l := range snssaiLens {
			c.r.Site("dec.snssai")
			it := newListInterp(c.w)
			st := it.NewState()
			obj, recv := it.SymbolicObj("ie")
			st.mem[obj] = map[string]Value{".Len": it.constBV(uint64(l), 8)}
			res := it.Call(fn, []Value{recv}, st, 0)
			oct := func(i int) BV { return it.SrcBV(fmt.Sprintf("ie.Octet[%d]", i-1), 8) }
			sst, sd, _, _ := snssaiLayout(l, oct)
			ok, msg := checkSnssaiField(it, st, "S-NSSAI", res, sst, sd)
			c.verdict("dec.snssai", fname, fmt.Sprintf("Len=%d", l), fn, it, ok, msg)
		}
	}
}

// elemOf reads element i of a slice; aggregate elements are composed from their cells.
func elemOf(it *Interp, st *state, sl SliceV, i int, t types.Type) Value {
	if sl.Obj == nil {
		return nil
	}
	pre := fmt.Sprintf("%s[%d]", sl.Path, sl.Lo+i)
	if v, ok := st.mem[sl.Obj][pre]; ok {
		return v
	}
	a := AggV{Cells: map[string]Value{}}
	for k, v := range st.mem[sl.Obj] {
		if strings.HasPrefix(k, pre+".") || strings.HasPrefix(k, pre+"[") {
			a.Cells[k[len(pre):]] = v
		}
	}
	return a
}

var nssaiShapes = [][]int{{1}, {2}, {4}, {5}, {8}, {1, 1}, {4, 1}, {1, 4, 2, 5, 8}, {8, 8, 8, 8, 8, 8, 8, 8}, {5, 2, 1}}

func checkNssaiWalker(c *listCtx) {
	fn, fname := c.fn("nasConvert", "RequestedNssaiToModels")
	if fn == nil {
		return
	}
	for _, shape := range nssaiShapes {
		for _, trunc := range []bool{false, true} {
			c.r.Site("walk.nssai")
			it := newListInterp(c.w)
			st := it.NewState()
			total := 0
			for _, l := range shape {
				total += l + 1
			}
			if trunc {
				total-- // the last entry is one octet short: malformed
			}
			bufObj := it.NewObj("buf", true)
			st.mem[bufObj] = map[string]Value{}
			off := 0
			var offs []int
			for _, l := range shape {
				offs = append(offs, off)
				st.mem[bufObj][fmt.Sprintf("[%d]", off)] = it.constBV(uint64(l), 8)
				off += l + 1
			}
			obj, recv := it.SymbolicObj("ie")
			st.mem[obj] = map[string]Value{".Len": it.constBV(uint64(total), 8), ".Buffer": SliceV{Obj: bufObj, Len: total}}
			res := it.Call(fn, []Value{recv}, st, 0)
			t, isT := res.(TupleV)
			ok, msg := isT && len(t) == 2, "result not resolvable"
			construct := fmt.Sprintf("entries=%v truncated=%v", shape, trunc)
			if ok {
				_, errNil := t[1].(NilV)
				sl, isSl := t[0].(SliceV)
				switch {
				case trunc && errNil:
					ok, msg = false, "a list whose last entry runs past the end of the contents is accepted"
				case trunc:
				case !errNil:
					ok, msg = false, "a well-formed list is rejected"
				case !isSl || sl.Len != len(shape):
					ok, msg = false, fmt.Sprintf("%d entries decoded, the contents hold %d", sl.Len, len(shape))
				default:
					for i, l := range shape {
						base := offs[i]
						oct := func(k int) BV { return it.SrcBV(fmt.Sprintf("buf[%d]", base+k), 8) }
						sst, sd, msst, msd := snssaiLayout(l, oct)
						ag, _ := elemOf(it, st, sl, i, nil).(AggV)
						if ok, msg = checkSnssaiField(it, st, fmt.Sprintf("entry %d serving S-NSSAI", i), ag.Cells[".ServingSnssai"], sst, sd); ok {
							ok, msg = checkSnssaiField(it, st, fmt.Sprintf("entry %d mapped HPLMN S-NSSAI", i), ag.Cells[".HomeSnssai"], msst, msd)
						}
						if !ok {
							break
						}
					}
				}
			}
			c.verdict("walk.nssai", fname, construct, fn, it, ok, msg)
		}
	}
}

// sliceOfAggs builds a slice value whose elements are the given aggregates (decomposed into cells).
func sliceOfAggs(it *Interp, st *state, name string, elems []AggV) SliceV {
	o := it.NewObj(name, false)
	st.mem[o] = map[string]Value{}
	for i, a := range elems {
		it.storeQuiet(st, Ptr{Obj: o, Path: fmt.Sprintf("[%d]", i)}, a)
	}
	return SliceV{Obj: o, Len: len(elems)}
}

func sliceOfStrings(it *Interp, st *state, name string, elems []StrV) SliceV {
	o := it.NewObj(name, false)
	st.mem[o] = map[string]Value{}
	for i, a := range elems {
		st.mem[o][fmt.Sprintf("[%d]", i)] = a
	}
	return SliceV{Obj: o, Len: len(elems)}
}

// rejected NSSAI: the concatenation of the rejected S-NSSAI entries, PLMN-wide ones (cause 0000)
// first, then registration-area ones (cause 0001); the IE length is the number of octets.
func checkRejectedNssai(c *listCtx) {
	fn, fname := c.fn("nasConvert", "RejectedNssaiToNas")
	if fn == nil {
		return
	}
	shapes := [][2][]bool{{{false}, {}}, {{}, {true}}, {{true, false}, {true}}, {{false, true, true}, {false, false}},
		// the maximum: eight rejected S-NSSAIs (TS 24.501 9.11.3.46), all with an SD (40 octets), none with one (16 octets)
		{{true, true, true, true, true}, {true, true, true}}, {{false, false, false, false}, {false, false, false, false}}, {{true, true, true, true, true, true, true, true}, {}}}
	for _, sh := range shapes {
		c.r.Site("lay.rejected-nssai")
		it := newListInterp(c.w)
		st := it.NewState()
		var want []BV
		mk := func(list []bool, tag string, cause uint64) SliceV {
			var elems []AggV
			for i, withSD := range list {
				a, sst, sd := snssaiArg(it, fmt.Sprintf("%s%d", tag, i), withSD)
				elems = append(elems, a)
				first := bvCat(it.constBV(uint64(1+len(sd)), 4), it.constBV(cause, 4))
				want = append(want, wantSnssai(it, first, sst, sd)...)
			}
			return sliceOfAggs(it, st, tag, elems)
		}
		inPlmn := mk(sh[0], "plmn", 0)
		inTa := mk(sh[1], "ta", 1)
		res := it.Call(fn, []Value{inPlmn, inTa}, st, 0)
		ag, ok := res.(AggV)
		msg := "result not resolvable"
		if ok {
			got, okB := sliceBytes(it, st, ag.Cells[".Buffer"])
			if !okB {
				ok = false
			} else if ok, msg = sameOctets(it, "rejected NSSAI contents", got, want); ok {
				if ok, msg = sameBV(it, ag.Cells[".Len"], it.constBV(uint64(len(want)), 8)); !ok {
					msg = "IE length is not the number of content octets: " + msg
				}
			}
		}
		c.verdict("lay.rejected-nssai", fname, fmt.Sprintf("PLMN entries (SD present) %v, area entries %v", sh[0], sh[1]), fn, it, ok, msg)
	}
}

type plmnText struct{ mcc, mnc string }

// plmnOctets: TS 24.008 10.5.1.3 coding of a PLMN given as decimal text.
func plmnOctets(it *Interp, p plmnText) []BV {
	d := func(ch byte) uint64 { return uint64(ch - '0') }
	mnc3 := uint64(0xf)
	mnc1, mnc2 := d(p.mnc[0]), d(p.mnc[1])
	if len(p.mnc) == 3 {
		mnc3 = d(p.mnc[2])
	}
	return []BV{it.constBV(d(p.mcc[1])<<4|d(p.mcc[0]), 8), it.constBV(mnc3<<4|d(p.mcc[2]), 8), it.constBV(mnc2<<4|mnc1, 8)}
}

func plmnPtr(it *Interp, st *state, name string, p plmnText) Ptr {
	o := it.NewObj(name, false)
	st.mem[o] = map[string]Value{".Mcc": StrV{Known: true, S: p.mcc}, ".Mnc": StrV{Known: true, S: p.mnc}}
	return Ptr{Obj: o}
}

func modelDeepEqual(it *Interp) {
	it.Models["reflect.DeepEqual"] = func(it *Interp, st *state, call *ssa.CallCommon, args []Value) (Value, bool) {
		a, ok1 := args[0].(Ptr)
		b, ok2 := args[1].(Ptr)
		if !ok1 || !ok2 {
			return nil, false
		}
		if a == b {
			return it.constBV(1, 1), true
		}
		eq := true
		for _, f := range []string{".Mcc", ".Mnc"} {
			x, okx := st.mem[a.Obj][a.Path+f].(StrV)
			y, oky := st.mem[b.Obj][b.Path+f].(StrV)
			if !okx || !oky || !x.Known || !y.Known {
				return nil, false
			}
			eq = eq && x.S == y.S
		}
		return it.constBV(uint64(b2i(eq)), 1), true
	}
}

var plmnA = plmnText{"208", "93"}
var plmnB = plmnText{"466", "092"}

var plmnC = plmnText{"208", "01"} // same MCC as plmnA, different MNC

// taiArgs builds []models.Tai with symbolic TACs, one PLMN object per entry.
func taiArgs(it *Interp, st *state, plmns []plmnText) SliceV {
	var elems []AggV
	for i, p := range plmns {
		elems = append(elems, AggV{Cells: map[string]Value{".PlmnId": plmnPtr(it, st, fmt.Sprintf("plmn%d", i), p), ".Tac": it.HexString(fmt.Sprintf("tac%d", i), 6)}})
	}
	return sliceOfAggs(it, st, "tais", elems)
}

func repeatPlmns(n int, ps ...plmnText) []plmnText {
	var out []plmnText
	for i := 0; i < n; i++ {
		out = append(out, ps[i%len(ps)])
	}
	return out
}

// wantTaiList: TS 24.501 9.11.3.9: 0 | type of list (2) | number of elements - 1 (5); type 00:
// PLMN then the TACs; type 10: PLMN and TAC per element.
func wantTaiList(it *Interp, plmns []plmnText) []BV {
	n := len(plmns)
	mixed := false
	for _, p := range plmns {
		mixed = mixed || p != plmns[0]
	}
	typ := uint64(0)
	if mixed {
		typ = 2
	}
	out := []BV{it.constBV(typ<<5|uint64(n-1), 8)}
	if !mixed {
		out = append(out, plmnOctets(it, plmns[0])...)
	}
	for i := 0; i < n; i++ {
		if mixed {
			out = append(out, plmnOctets(it, plmns[i])...)
		}
		out = append(out, hexBytes(it, fmt.Sprintf("tac%d", i), 3)...)
	}
	return out
}

func checkTaiList(c *listCtx) {
	fn, fname := c.fn("nasConvert", "TaiListToNas")
	if fn == nil {
		return
	}
	shapes := [][]plmnText{repeatPlmns(1, plmnA), repeatPlmns(2, plmnA), repeatPlmns(3, plmnA), repeatPlmns(16, plmnA),
		{plmnA, plmnB}, {plmnA, plmnB, plmnA}, {plmnA, plmnC}, {plmnA, plmnA, plmnC}, {plmnC, plmnA}, repeatPlmns(16, plmnA, plmnB)}
	for _, plmns := range shapes {
		c.r.Site("lay.tai-list")
		it := newListInterp(c.w)
		modelDeepEqual(it)
		st := it.NewState()
		arg := taiArgs(it, st, plmns)
		res := it.Call(fn, []Value{arg}, st, 0)
		got, ok := sliceBytes(it, st, res)
		msg := "result not resolvable"
		if ok {
			ok, msg = sameOctets(it, "TAI list", got, wantTaiList(it, plmns))
		}
		var names []string
		for _, p := range plmns {
			names = append(names, p.mcc+"-"+p.mnc)
		}
		if len(names) > 4 {
			names = append(names[:3], fmt.Sprintf("... (%d TAIs)", len(plmns)))
		}
		c.verdict("lay.tai-list", fname, "PLMNs "+strings.Join(names, ","), fn, it, ok, msg)
	}
}

// service area list (TS 24.501 9.11.3.49), type 00: allowed type (1) | type of list 00 | number
// of elements - 1 (5), PLMN, then the TACs; an element is one TAC.
func checkServiceAreaList(c *listCtx) {
	fn, fname := c.fn("nasConvert", "PartialServiceAreaListToNas")
	if fn == nil {
		return
	}
	for _, allowed := range []bool{true, false} {
		for _, shape := range [][]int{{1}, {2}, {1, 2}, {3, 1, 2}, {16}} {
			c.r.Site("lay.service-area")
			it := newListInterp(c.w)
			st := it.NewState()
			var areas []AggV
			var tacs []BV
			k := 0
			for _, nt := range shape {
				var ts []StrV
				for j := 0; j < nt; j++ {
					ts = append(ts, it.HexString(fmt.Sprintf("tac%d", k), 6))
					tacs = append(tacs, hexBytes(it, fmt.Sprintf("tac%d", k), 3)...)
					k++
				}
				areas = append(areas, AggV{Cells: map[string]Value{".Tacs": sliceOfStrings(it, st, fmt.Sprintf("tacs%d", len(areas)), ts), ".AreaCode": StrV{Known: true}}})
			}
			rt := "NOT_ALLOWED_AREAS"
			at := uint64(1)
			if allowed {
				rt, at = "ALLOWED_AREAS", 0
			}
			sar := AggV{Cells: map[string]Value{".RestrictionType": StrV{Known: true, S: rt}, ".Areas": sliceOfAggs(it, st, "areas", areas),
				".MaxNumOfTAs": it.constBV(0, 32), ".MaxNumOfTAsForNotAllowedAreas": it.constBV(0, 32)}}
			plmn := AggV{Cells: map[string]Value{".Mcc": StrV{Known: true, S: plmnA.mcc}, ".Mnc": StrV{Known: true, S: plmnA.mnc}}}
			res := it.Call(fn, []Value{plmn, sar}, st, 0)
			got, ok := sliceBytes(it, st, res)
			msg := "result not resolvable"
			if ok {
				want := []BV{it.constBV(at<<7|uint64(k-1), 8)}
				want = append(want, plmnOctets(it, plmnA)...)
				want = append(want, tacs...)
				ok, msg = sameOctets(it, "service area list", got, want)
			}
			c.verdict("lay.service-area", fname, fmt.Sprintf("allowed=%v TACs per area %v", allowed, shape), fn, it, ok, msg)
		}
	}
}

// symText: a string of n arbitrary octets named name[i].
func symText(it *Interp, name string, n int) (StrV, []BV) {
	s := StrV{Sym: true}
	var bs []BV
	for i := 0; i < n; i++ {
		b := it.SrcBV(fmt.Sprintf("%s[%d]", name, i), 8)
		s.Chars = append(s.Chars, b)
		bs = append(bs, b)
	}
	return s, bs
}

// LADN (TS 24.501 9.11.3.30): length of DNN | DNN | length of TAI list | TAI list.
func checkLadnToNas(c *listCtx) {
	fn, fname := c.fn("nasConvert", "LadnToNas")
	if fn == nil {
		return
	}
	for _, dl := range []int{1, 8, 20} {
		for _, plmns := range [][]plmnText{repeatPlmns(1, plmnA), repeatPlmns(3, plmnA), {plmnA, plmnB}, {plmnA, plmnC, plmnA}} {
			n := len(plmns)
			c.r.Site("lay.ladn")
			it := newListInterp(c.w)
			modelDeepEqual(it)
			st := it.NewState()
			dnn, dnnB := symText(it, "dnn", dl)
			arg := taiArgs(it, st, plmns)
			res := it.Call(fn, []Value{dnn, arg}, st, 0)
			got, ok := sliceBytes(it, st, res)
			msg := "result not resolvable"
			if ok {
				tl := wantTaiList(it, plmns)
				want := append([]BV{it.constBV(uint64(dl), 8)}, dnnB...)
				want = append(want, it.constBV(uint64(len(tl)), 8))
				want = append(want, tl...)
				ok, msg = sameOctets(it, "LADN", got, want)
			}
			several := false
			for _, p := range plmns {
				several = several || p != plmns[0]
			}
			c.verdict("lay.ladn", fname, fmt.Sprintf("DNN of %d octets, %d TAIs, several PLMNs=%v", dl, n, several), fn, it, ok, msg)
		}
	}
}

// LADN indication (TS 24.501 9.11.3.29): a sequence of (length of DNN | DNN); the decoder returns
// exactly the DNN values, in order.
func checkLadnToModels(c *listCtx) {
	fn, fname := c.fn("nasConvert", "LadnToModels")
	if fn == nil {
		return
	}
	for _, shape := range [][]int{{1}, {8}, {3, 5}, {9, 1, 4}, {0, 2}, {2, 0}} {
		c.r.Site("walk.ladn")
		it := newListInterp(c.w)
		st := it.NewState()
		total := 0
		for _, l := range shape {
			total += l + 1
		}
		bufObj := it.NewObj("buf", true)
		st.mem[bufObj] = map[string]Value{}
		off := 0
		var offs []int
		for _, l := range shape {
			offs = append(offs, off)
			st.mem[bufObj][fmt.Sprintf("[%d]", off)] = it.constBV(uint64(l), 8)
			off += l + 1
		}
		res := it.Call(fn, []Value{SliceV{Obj: bufObj, Len: total}}, st, 0)
		sl, ok := res.(SliceV)
		msg := "result not resolvable"
		if ok {
			if sl.Len != len(shape) && !(sl.Nil && len(shape) == 0) {
				n := sl.Len
				if sl.Nil {
					n = 0
				}
				ok, msg = false, fmt.Sprintf("%d DNN values decoded, the indication holds %d", n, len(shape))
			}
			for i := 0; ok && i < len(shape); i++ {
				v, isStr := elemOf(it, st, sl, i, nil).(StrV)
				var chars []BV
				switch {
				case isStr && v.Sym:
					chars = v.Chars
				case isStr && v.Known && v.S == "":
				default:
					ok, msg = false, fmt.Sprintf("DNN %d not resolvable", i)
				}
				if ok && len(chars) != shape[i] {
					ok, msg = false, fmt.Sprintf("DNN %d has %d octets, its length octet says %d", i, len(chars), shape[i])
				}
				for k := 0; ok && k < shape[i]; k++ {
					if ok, msg = sameBV(it, chars[k], it.SrcBV(fmt.Sprintf("buf[%d]", offs[i]+1+k), 8)); !ok {
						msg = fmt.Sprintf("DNN %d octet %d is not octet %d of the contents: %s", i, k, offs[i]+1+k, msg)
					}
				}
			}
		}
		c.verdict("walk.ladn", fname, fmt.Sprintf("DNN lengths %v", shape), fn, it, ok, msg)
	}
}

func propC13(w *World, r *Report, tier string) {
	c := &listCtx{w: w, r: r}
	r.Explanation = "Every encoder of the slice and area lists is interpreted over go/ssa in the bit-term domain (E2) on symbolic field values (SST, SD, TAC and DNN octets, cause) at a set " +
		"of list shapes, and its output octets are compared with the TS 24.501 / TS 24.008 layout (length and header octets, n-1 element counts, element order, PLMN coding); every decoder " +
		"is interpreted on symbolic content octets at concrete length octets and the fields of its result are shown to be exactly the octets the layout assigns to them; snssaiToModels is " +
		"run for every length octet 0..255 (well-formed lengths 1,2,4,5,8 accepted with the right fields, every other length and every short buffer an error). Nothing is executed; each " +
		"verdict covers all values of the symbolic octets."
	r.Assumptions = []string{"SD and TAC texts are 6 lowercase hexadecimal characters, MCC/MNC decimal digit strings (the models' documented formats); malformed text is logged and skipped by the encoders and is not covered",
		"list shapes are specialised: NSSAI shapes listed in nssaiShapes, TAI lists of 1,2,3,16 entries over one or two PLMNs, service-area lists with 1..3 areas of up to 16 TACs, LADN DNNs of 0..20 octets; not proven for every list length",
		"PLMN equality in TaiListToNas (reflect.DeepEqual) is modelled on concrete PLMN values"}
	r.Trusted = []string{"go/ssa", "E2 interpreter with its text models (hex, decimal digits)", "the checker's transcription of the TS 24.501 figures 9.11.2.8, 9.11.3.9, 9.11.3.29/30, 9.11.3.46, 9.11.3.49"}
	defer func() {
		r.Expect("lay.snssai", 4)
		r.Expect("dec.snssai", 266)
		r.Expect("walk.nssai", 20)
		r.Expect("lay.rejected-nssai", 7)
		r.Expect("lay.tai-list", 10)
		r.Expect("lay.service-area", 10)
		r.Expect("dec.tai-list", 14)
		r.Expect("dec.service-area", 6)
		r.Expect("lay.ladn", 12)
		r.Expect("walk.ladn", 6)
	}()
	checkSnssaiEncoders(c)
	checkSnssaiDecoders(c)
	checkNssaiWalker(c)
	checkRejectedNssai(c)
	checkTaiList(c)
	checkServiceAreaList(c)
	checkTaiListSpec(c)
	checkServiceAreaSpec(c)
	checkLadnToNas(c)
	checkLadnToModels(c)
}

var _ = types.Typ
