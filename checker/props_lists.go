package main

// C13: slice and area lists.  Each encoder is interpreted in the bit-term domain (E2) on
// symbolic field values at a set of list shapes (number of entries, SD present/absent, ...)
// and its output octets are compared with the TS 24.501 layout; each decoder is interpreted on
// symbolic octets at concrete length octets and its result fields are compared with the octets
// the layout assigns to them.

import (
	"fmt"
	"go/token"
	"go/types"
	"strings"

	"golang.org/x/tools/go/ssa"
)

func init() { register("C13", propC13) }

type listCtx struct {
	w *World
	r *Report
}

func (c *listCtx) fn(rel, name string) (*ssa.Function, string) {
	f := c.w.LookupFunc(rel, name)
	if f == nil {
		c.r.Fail("anchor", rel+"."+name, "missing", token.NoPos, "function not found", nil)
		return nil, ""
	}
	c.r.Fn(FuncName(f))
	return c.w.SSAFunc(f), FuncName(f)
}

func (c *listCtx) verdict(rule, fname, construct string, fn *ssa.Function, it *Interp, ok bool, msg string) {
	if len(it.Unsup) > 0 && ok {
		ok, msg = false, "undecided: "+strings.Join(it.Unsup, "; ")
	}
	if !ok {
		c.r.Fail(rule, fname, construct, fn.Pos(), msg, nil)
		return
	}
	c.r.OK(rule)
}

func newListInterp(w *World) *Interp {
	it := NewInterp(w)
	it.Fuel = 2000000
	it.Premise = it.T.one
	return it
}

// sliceBytes reads the octets of a byte slice value.
func sliceBytes(it *Interp, st *state, v Value) ([]BV, bool) {
	sl, ok := v.(SliceV)
	if !ok || sl.Len < 0 {
		return nil, false
	}
	out := []BV{}
	if sl.Nil || sl.Obj == nil {
		return out, sl.Len <= 0
	}
	for i := 0; i < sl.Len; i++ {
		b, ok := it.load(st, it.sliceElemPtr(sl, i), u8T).(BV)
		if !ok {
			return nil, false
		}
		out = append(out, b)
	}
	return out, true
}

// hexBytes: the octets a string of 2n hexadecimal characters named name decodes to.
func hexBytes(it *Interp, name string, n int) []BV {
	var out []BV
	for i := 0; i < n; i++ {
		h := it.SrcBV(fmt.Sprintf("%s.h%d", name, 2*i), 4)
		l := it.SrcBV(fmt.Sprintf("%s.h%d", name, 2*i+1), 4)
		out = append(out, bvCat(h, l))
	}
	return out
}

func sameOctets(it *Interp, what string, got, want []BV) (bool, string) {
	if len(got) != len(want) {
		return false, fmt.Sprintf("%s is %d octets long, the layout has %d", what, len(got), len(want))
	}
	for i := range want {
		if ok, msg := sameBV(it, got[i], want[i]); !ok {
			return false, fmt.Sprintf("%s octet %d: %s", what, i+1, msg)
		}
	}
	return true, ""
}

// snssaiArg: models.Snssai{Sst, Sd} with a symbolic SST and an absent or 24-bit SD.
func snssaiArg(it *Interp, name string, withSD bool) (AggV, BV, []BV) {
	sst := it.SrcBV(name+".sst", 32)
	sst.Signed = true
	a := AggV{Cells: map[string]Value{".Sst": sst}}
	var sd []BV
	if withSD {
		a.Cells[".Sd"] = it.HexString(name+".sd", 6)
		sd = hexBytes(it, name+".sd", 3)
	} else {
		a.Cells[".Sd"] = StrV{Known: true, S: ""}
	}
	return a, sst, sd
}

// wantSnssai: length || SST || [SD]   (TS 24.501 9.11.2.8, value part preceded by its length)
func wantSnssai(it *Interp, first BV, sst BV, sd []BV) []BV {
	out := []BV{first, bvBits(sst, 0, 8)}
	return append(out, sd...)
}

func checkSnssaiEncoders(c *listCtx) {
	if fn, fname := c.fn("nasConvert", "SnssaiToNas"); fn != nil {
		for _, withSD := range []bool{false, true} {
			c.r.Site("lay.snssai")
			it := newListInterp(c.w)
			st := it.NewState()
			arg, sst, sd := snssaiArg(it, "s", withSD)
			res := it.Call(fn, []Value{arg}, st, 0)
			got, ok := sliceBytes(it, st, res)
			msg := "result not resolvable"
			if ok {
				want := wantSnssai(it, it.constBV(uint64(1+len(sd)), 8), sst, sd)
				ok, msg = sameOctets(it, "S-NSSAI", got, want)
			}
			c.verdict("lay.snssai", fname, fmt.Sprintf("SD present=%v", withSD), fn, it, ok, msg)
		}
	}
	if fn, fname := c.fn("nasConvert", "RejectedSnssaiToNas"); fn != nil {
		for _, withSD := range []bool{false, true} {
			c.r.Site("lay.snssai")
			it := newListInterp(c.w)
			st := it.NewState()
			arg, sst, sd := snssaiArg(it, "s", withSD)
			cause := bvZext(it, it.SrcBV("cause", 4), 8)
			res := it.Call(fn, []Value{arg, cause}, st, 0)
			got, ok := sliceBytes(it, st, res)
			msg := "result not resolvable"
			if ok {
				// length of rejected S-NSSAI (bits 8-5) || cause (bits 4-1)
				first := bvCat(it.constBV(uint64(1+len(sd)), 4), it.SrcBV("cause", 4))
				ok, msg = sameOctets(it, "rejected S-NSSAI", got, wantSnssai(it, first, sst, sd))
			}
			c.verdict("lay.snssai", fname, fmt.Sprintf("SD present=%v", withSD), fn, it, ok, msg)
		}
	}
}

// hexOf: is s the lowercase hexadecimal text of the octets bs?
func hexOf(it *Interp, v Value, bs []BV) (bool, string) {
	s, ok := v.(StrV)
	if !ok {
		return false, fmt.Sprintf("not a string (%T)", v)
	}
	if len(bs) == 0 {
		if (s.Known && s.S == "") || (s.Sym && len(s.Chars) == 0) {
			return true, ""
		}
		return false, "SD is set although the S-NSSAI carries none"
	}
	if !s.Sym || len(s.Chars) != 2*len(bs) {
		return false, fmt.Sprintf("not the %d-character hexadecimal text of the SD octets", 2*len(bs))
	}
	for i, b := range bs {
		for k, nib := range [][]*Node{b.B[4:8], b.B[0:4]} {
			ch := s.Chars[2*i+k]
			if ch.Hex == nil {
				return false, fmt.Sprintf("character %d is not a hexadecimal digit of the SD", 2*i+k)
			}
			if ok, msg := sameBV(it, BV{W: 4, B: ch.Hex}, BV{W: 4, B: nib}); !ok {
				return false, fmt.Sprintf("character %d: %s", 2*i+k, msg)
			}
		}
	}
	return true, ""
}

// snssaiFields reads Sst and Sd of a models.Snssai held in an aggregate or behind a pointer.
func snssaiFields(it *Interp, st *state, v Value) (sst Value, sd Value, present bool) {
	switch x := v.(type) {
	case AggV:
		return x.Cells[".Sst"], x.Cells[".Sd"], true
	case Ptr:
		i32 := types.Typ[types.Int32]
		return it.load(st, Ptr{Obj: x.Obj, Path: x.Path + ".Sst"}, i32), it.load(st, Ptr{Obj: x.Obj, Path: x.Path + ".Sd"}, types.Typ[types.String]), true
	}
	return nil, nil, false
}

func checkSnssaiField(it *Interp, st *state, what string, v Value, sstOctet *BV, sdOctets []BV) (bool, string) {
	sst, sd, present := snssaiFields(it, st, v)
	if sstOctet == nil {
		if present {
			return false, what + " is set although the contents carry none"
		}
		return true, ""
	}
	if !present {
		return false, what + " is missing"
	}
	want := bvZext(it, *sstOctet, 32)
	if ok, msg := sameBV(it, sst, want); !ok {
		return false, what + " SST: " + msg
	}
	if ok, msg := hexOf(it, sd, sdOctets); !ok {
		return false, what + " SD: " + msg
	}
	return true, ""
}

var snssaiLens = []int{1, 2, 4, 5, 8}

// snssaiLayout: which octets (1-based after the length octet) hold SST, SD, mapped SST, mapped SD.
func snssaiLayout(l int, oct func(i int) BV) (sst *BV, sd []BV, msst *BV, msd []BV) {
	o := func(i int) *BV { b := oct(i); return &b }
	switch l {
	case 1:
		return o(1), nil, nil, nil
	case 2:
		return o(1), nil, o(2), nil
	case 4:
		return o(1), []BV{oct(2), oct(3), oct(4)}, nil, nil
	case 5:
		return o(1), []BV{oct(2), oct(3), oct(4)}, o(5), nil
	case 8:
		return o(1), []BV{oct(2), oct(3), oct(4)}, o(5), []BV{oct(6), oct(7), oct(8)}
	}
	return nil, nil, nil, nil
}

func checkSnssaiDecoders(c *listCtx) {
	// snssaiToModels(length, buf): buf[0] is the length octet
	if fn, fname := c.fn("nasConvert", "snssaiToModels"); fn != nil {
		for l := 0; l < 256; l++ {
			valid := false
			for _, v := range snssaiLens {
				valid = valid || v == l
			}
			for _, short := range []bool{false, true} {
				if short && !valid {
					continue
				}
				c.r.Site("dec.snssai")
				it := newListInterp(c.w)
				st := it.NewState()
				n := l + 1
				if short {
					n = l
				}
				buf := it.SymbolicBytes(st, "buf", n)
				res := it.Call(fn, []Value{it.constBV(uint64(l), 8), buf}, st, 0)
				t, isT := res.(TupleV)
				ok, msg := isT && len(t) == 2, "result not resolvable"
				if ok {
					_, errNil := t[1].(NilV)
					switch {
					case (!valid || short) && errNil:
						ok, msg = false, fmt.Sprintf("length %d with %d octets available is accepted; the decoder must report it as an error", l, n)
					case valid && !short && !errNil:
						ok, msg = false, fmt.Sprintf("well-formed contents of length %d are rejected", l)
					case valid && !short:
						oct := func(i int) BV { return it.SrcBV(fmt.Sprintf("buf[%d]", i), 8) }
						sst, sd, msst, msd := snssaiLayout(l, oct)
						ag, _ := t[0].(AggV)
						if ok, msg = checkSnssaiField(it, st, "serving S-NSSAI", ag.Cells[".ServingSnssai"], sst, sd); ok {
							ok, msg = checkSnssaiField(it, st, "mapped HPLMN S-NSSAI", ag.Cells[".HomeSnssai"], msst, msd)
						}
					}
				}
				c.verdict("dec.snssai", fname, fmt.Sprintf("length=%d short=%v", l, short), fn, it, ok, msg)
			}
		}
	}
	// SnssaiToModels(*nasType.SNSSAI)
	if fn, fname := c.fn("nasConvert", "SnssaiToModels"); fn != nil {
		for _, l := range snssaiLens {
			c.r.Site("dec.snssai")
			it := newListInterp(c.w)
			st := it.NewState()
			obj, recv := it.SymbolicObj("ie")
			st.mem[obj] = map[string]Value{".Len": it.constBV(uint64(l), 8)}
			res := it.Call(fn, []Value{recv}, st, 0)
			oct := func(i int) BV { return it.SrcBV(fmt.Sprintf("ie.Octet[%d]", i-1), 8) }
			sst, sd, _, _ := snssaiLayout(l, oct)
			ok, msg := checkSnssaiField(it, st, "S-NSSAI", res, sst, sd)
			c.verdict("dec.snssai", fname, fmt.Sprintf("Len=%d", l), fn, it, ok, msg)
		}
	}
}

// elemOf reads element i of a slice; aggregate elements are composed from their cells.
func elemOf(it *Interp, st *state, sl SliceV, i int, t types.Type) Value {
	if sl.Obj == nil {
		return nil
	}
	pre := fmt.Sprintf("%s[%d]", sl.Path, sl.Lo+i)
	if v, ok := st.mem[sl.Obj][pre]; ok {
		return v
	}
	a := AggV{Cells: map[string]Value{}}
	for k, v := range st.mem[sl.Obj] {
		if strings.HasPrefix(k, pre+".") || strings.HasPrefix(k, pre+"[") {
			a.Cells[k[len(pre):]] = v
		}
	}
	return a
}

var nssaiShapes = [][]int{{1}, {2}, {4}, {5}, {8}, {1, 1}, {4, 1}, {1, 4, 2, 5, 8}, {8, 8, 8, 8, 8, 8, 8, 8}, {5, 2, 1}}

func checkNssaiWalker(c *listCtx) {
	fn, fname := c.fn("nasConvert", "RequestedNssaiToModels")
	if fn == nil {
		return
	}
	for _, shape := range nssaiShapes {
		for _, trunc := range []bool{false, true} {
			c.r.Site("walk.nssai")
			it := newListInterp(c.w)
			st := it.NewState()
			total := 0
			for _, l := range shape {
				total += l + 1
			}
			if trunc {
				total-- // the last entry is one octet short: malformed
			}
			bufObj := it.NewObj("buf", true)
			st.mem[bufObj] = map[string]Value{}
			off := 0
			var offs []int
			for _, l := range shape {
				offs = append(offs, off)
				st.mem[bufObj][fmt.Sprintf("[%d]", off)] = it.constBV(uint64(l), 8)
				off += l + 1
			}
			obj, recv := it.SymbolicObj("ie")
			st.mem[obj] = map[string]Value{".Len": it.constBV(uint64(total), 8), ".Buffer": SliceV{Obj: bufObj, Len: total}}
			res := it.Call(fn, []Value{recv}, st, 0)
			t, isT := res.(TupleV)
			ok, msg := isT && len(t) == 2, "result not resolvable"
			construct := fmt.Sprintf("entries=%v truncated=%v", shape, trunc)
			if ok {
				_, errNil := t[1].(NilV)
				sl, isSl := t[0].(SliceV)
				switch {
				case trunc && errNil:
					ok, msg = false, "a list whose last entry runs past the end of the contents is accepted"
				case trunc:
				case !errNil:
					ok, msg = false, "a well-formed list is rejected"
				case !isSl || sl.Len != len(shape):
					ok, msg = false, fmt.Sprintf("%d entries decoded, the contents hold %d", sl.Len, len(shape))
				default:
					for i, l := range shape {
						base := offs[i]
						oct := func(k int) BV { return it.SrcBV(fmt.Sprintf("buf[%d]", base+k), 8) }
						sst, sd, msst, msd := snssaiLayout(l, oct)
						ag, _ := elemOf(it, st, sl, i, nil).(AggV)
						if ok, msg = checkSnssaiField(it, st, fmt.Sprintf("entry %d serving S-NSSAI", i), ag.Cells[".ServingSnssai"], sst, sd); ok {
							ok, msg = checkSnssaiField(it, st, fmt.Sprintf("entry %d mapped HPLMN S-NSSAI", i), ag.Cells[".HomeSnssai"], msst, msd)
						}
						if !ok {
							break
						}
					}
				}
			}
			c.verdict("walk.nssai", fname, construct, fn, it, ok, msg)
		}
	}
}

func propC13(w *World, r *Report, tier string) {
	c := &listCtx{w: w, r: r}
	checkSnssaiEncoders(c)
	checkSnssaiDecoders(c)
	checkNssaiWalker(c)
}

var _ = types.Typ
