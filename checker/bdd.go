package main

// A small ROBDD package used to decide semantic equality of E2 bit terms (so that two
// differently structured but equivalent computations compare equal).

import "sort"

type bddNode struct {
	v      int // variable index (order); terminal nodes: v = maxInt
	lo, hi int
}

type BDD struct {
	nodes  []bddNode
	unique map[[3]int]int
	ite    map[[3]int]int
	vars   map[string]int // source bit -> variable index
	limit  int
	over   bool
}

func NewBDD(limit int) *BDD {
	b := &BDD{unique: map[[3]int]int{}, ite: map[[3]int]int{}, vars: map[string]int{}, limit: limit}
	b.nodes = append(b.nodes, bddNode{1 << 30, 0, 0}, bddNode{1 << 30, 1, 1}) // 0 = false, 1 = true
	return b
}

func (b *BDD) mk(v, lo, hi int) int {
	if lo == hi {
		return lo
	}
	k := [3]int{v, lo, hi}
	if n, ok := b.unique[k]; ok {
		return n
	}
	if len(b.nodes) > b.limit {
		b.over = true
		return 0
	}
	b.nodes = append(b.nodes, bddNode{v, lo, hi})
	b.unique[k] = len(b.nodes) - 1
	return len(b.nodes) - 1
}

func (b *BDD) varNode(name string) int {
	i, ok := b.vars[name]
	if !ok {
		i = len(b.vars)
		b.vars[name] = i
	}
	return b.mk(i, 0, 1)
}

func (b *BDD) iteOp(f, g, h int) int {
	if f == 1 {
		return g
	}
	if f == 0 {
		return h
	}
	if g == h {
		return g
	}
	if g == 1 && h == 0 {
		return f
	}
	k := [3]int{f, g, h}
	if r, ok := b.ite[k]; ok {
		return r
	}
	v := b.nodes[f].v
	if b.nodes[g].v < v {
		v = b.nodes[g].v
	}
	if b.nodes[h].v < v {
		v = b.nodes[h].v
	}
	cof := func(n int, val bool) int {
		if b.nodes[n].v != v {
			return n
		}
		if val {
			return b.nodes[n].hi
		}
		return b.nodes[n].lo
	}
	lo := b.iteOp(cof(f, false), cof(g, false), cof(h, false))
	hi := b.iteOp(cof(f, true), cof(g, true), cof(h, true))
	r := b.mk(v, lo, hi)
	b.ite[k] = r
	return r
}

// declareVars fixes the variable order: sources sorted by (name, bit) so that the bits of one
// word are adjacent and ascending.
func (b *BDD) declareVars(roots []*Node) {
	seen := map[*Node]bool{}
	type sv struct {
		name string
		idx  int
	}
	var vs []sv
	var walk func(n *Node)
	walk = func(n *Node) {
		if n == nil || seen[n] {
			return
		}
		seen[n] = true
		if n.op == opSrc {
			vs = append(vs, sv{n.src, n.idx})
		}
		walk(n.a)
		walk(n.b)
		walk(n.c)
	}
	for _, r := range roots {
		walk(r)
	}
	sort.Slice(vs, func(i, j int) bool {
		if vs[i].name != vs[j].name {
			return vs[i].name < vs[j].name
		}
		return vs[i].idx < vs[j].idx
	})
	for _, v := range vs {
		b.varNode(srcKey(v.name, v.idx))
	}
}

func srcKey(name string, idx int) string { return name + "#" + itoa(idx) }

func (b *BDD) of(n *Node, memo map[*Node]int) (int, bool) {
	if r, ok := memo[n]; ok {
		return r, true
	}
	var r int
	switch n.op {
	case opZero:
		r = 0
	case opOne:
		r = 1
	case opSrc:
		r = b.varNode(srcKey(n.src, n.idx))
	case opTop:
		return 0, false
	case opNot:
		x, ok := b.of(n.a, memo)
		if !ok {
			return 0, false
		}
		r = b.iteOp(x, 0, 1)
	default:
		x, ok1 := b.of(n.a, memo)
		y, ok2 := b.of(n.b, memo)
		if !ok1 || !ok2 {
			return 0, false
		}
		switch n.op {
		case opAnd:
			r = b.iteOp(x, y, 0)
		case opOr:
			r = b.iteOp(x, 1, y)
		case opXor:
			ny := b.iteOp(y, 0, 1)
			r = b.iteOp(x, ny, y)
		case opMux:
			c, ok := b.of(n.c, memo)
			if !ok {
				return 0, false
			}
			r = b.iteOp(c, x, y)
		}
	}
	if b.over {
		return 0, false
	}
	memo[n] = r
	return r, true
}

// Equiv decides whether two bit terms denote the same Boolean function of the sources.
func (t *TermTable) Equiv(x, y *Node) bool {
	if x == y {
		return true
	}
	b := NewBDD(400000)
	b.declareVars([]*Node{x, y})
	memo := map[*Node]int{}
	bx, ok1 := b.of(x, memo)
	by, ok2 := b.of(y, memo)
	return ok1 && ok2 && !b.over && bx == by
}

func (t *TermTable) EquivBV(x, y BV) bool {
	if x.W != y.W {
		return false
	}
	for i := range x.B {
		if !t.Equiv(x.B[i], y.B[i]) {
			return false
		}
	}
	return true
}
