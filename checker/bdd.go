package main

// A small ROBDD package used to decide semantic equality of E2 bit terms (so that two
// differently structured but equivalent computations compare equal).

import "sort"

type bddNode struct {
	v      int // variable index (order); terminal nodes: v = maxInt
	lo, hi int
}

type BDD struct {
	nodes  []bddNode
	unique map[[3]int]int
	ite    map[[3]int]int
	vars   map[string]int // source bit -> variable index
	limit  int
	over   bool
	steps  int // ite expansions (bounded: 4x the node limit)
}

func NewBDD(limit int) *BDD {
	b := &BDD{unique: map[[3]int]int{}, ite: map[[3]int]int{}, vars: map[string]int{}, limit: limit}
	b.nodes = append(b.nodes, bddNode{1 << 30, 0, 0}, bddNode{1 << 30, 1, 1}) // 0 = false, 1 = true
	return b
}

func (b *BDD) mk(v, lo, hi int) int {
	if lo == hi {
		return lo
	}
	k := [3]int{v, lo, hi}
	if n, ok := b.unique[k]; ok {
		return n
	}
	if len(b.nodes) > b.limit {
		b.over = true
		return 0
	}
	b.nodes = append(b.nodes, bddNode{v, lo, hi})
	b.unique[k] = len(b.nodes) - 1
	return len(b.nodes) - 1
}

func (b *BDD) varNode(name string) int {
	i, ok := b.vars[name]
	if !ok {
		i = len(b.vars)
		b.vars[name] = i
	}
	return b.mk(i, 0, 1)
}

func (b *BDD) iteOp(f, g, h int) int {
	if f == 1 {
		return g
	}
	if f == 0 {
		return h
	}
	if g == h {
		return g
	}
	if g == 1 && h == 0 {
		return f
	}
	if b.over {
		return 0
	}
	k := [3]int{f, g, h}
	if r, ok := b.ite[k]; ok {
		return r
	}
	b.steps++
	if b.steps > 4*b.limit {
		b.over = true
		return 0
	}
	v := b.nodes[f].v
	if b.nodes[g].v < v {
		v = b.nodes[g].v
	}
	if b.nodes[h].v < v {
		v = b.nodes[h].v
	}
	cof := func(n int, val bool) int {
		if b.nodes[n].v != v {
			return n
		}
		if val {
			return b.nodes[n].hi
		}
		return b.nodes[n].lo
	}
	lo := b.iteOp(cof(f, false), cof(g, false), cof(h, false))
	hi := b.iteOp(cof(f, true), cof(g, true), cof(h, true))
	r := b.mk(v, lo, hi)
	b.ite[k] = r
	return r
}

// declareVars fixes the variable order: sources sorted by (name, bit) so that the bits of one
// word are adjacent and ascending.
func (b *BDD) declareVars(roots []*Node) { b.declareVarsOrd(roots, false) }

// declareVarsOrd: with interleave the order is (bit, name), which keeps word additions small.
func (b *BDD) declareVarsOrd(roots []*Node, interleave bool) {
	seen := map[*Node]bool{}
	type sv struct {
		name string
		idx  int
	}
	var vs []sv
	var walk func(n *Node)
	walk = func(n *Node) {
		if n == nil || seen[n] {
			return
		}
		seen[n] = true
		if n.op == opSrc {
			vs = append(vs, sv{n.src, n.idx})
		}
		walk(n.a)
		walk(n.b)
		walk(n.c)
		for _, k := range n.kids {
			walk(k)
		}
	}
	for _, r := range roots {
		walk(r)
	}
	sort.Slice(vs, func(i, j int) bool {
		if interleave && vs[i].idx != vs[j].idx {
			return vs[i].idx < vs[j].idx
		}
		if vs[i].name != vs[j].name {
			return vs[i].name < vs[j].name
		}
		return vs[i].idx < vs[j].idx
	})
	for _, v := range vs {
		b.varNode(srcKey(v.name, v.idx))
	}
}

func srcKey(name string, idx int) string { return name + "#" + itoa(idx) }

func (b *BDD) of(n *Node, memo map[*Node]int) (int, bool) {
	if r, ok := memo[n]; ok {
		return r, true
	}
	if b.over {
		return 0, false
	}
	var r int
	switch n.op {
	case opZero:
		r = 0
	case opOne:
		r = 1
	case opSrc:
		r = b.varNode(srcKey(n.src, n.idx))
	case opTop:
		return 0, false
	case opApp:
		// uninterpreted: one variable per (table, bit, canonical index functions)
		key := "app|" + n.src + "|" + itoa(n.idx)
		for _, c := range n.kids {
			x, ok := b.of(c, memo)
			if !ok {
				return 0, false
			}
			key += "|" + itoa(x)
		}
		r = b.varNode(key)
	case opNot:
		x, ok := b.of(n.a, memo)
		if !ok {
			return 0, false
		}
		r = b.iteOp(x, 0, 1)
	default:
		x, ok1 := b.of(n.a, memo)
		y, ok2 := b.of(n.b, memo)
		if !ok1 || !ok2 {
			return 0, false
		}
		switch n.op {
		case opAnd:
			r = b.iteOp(x, y, 0)
		case opOr:
			r = b.iteOp(x, 1, y)
		case opXor:
			ny := b.iteOp(y, 0, 1)
			r = b.iteOp(x, ny, y)
		case opMux:
			c, ok := b.of(n.c, memo)
			if !ok {
				return 0, false
			}
			r = b.iteOp(c, x, y)
		}
	}
	if b.over {
		return 0, false
	}
	memo[n] = r
	return r, true
}

// Equiv decides whether two bit terms denote the same Boolean function of the sources.
func (t *TermTable) Equiv(x, y *Node) bool {
	if x == y {
		return true
	}
	b := NewBDD(400000)
	b.declareVars([]*Node{x, y})
	memo := map[*Node]int{}
	bx, ok1 := b.of(x, memo)
	by, ok2 := b.of(y, memo)
	return ok1 && ok2 && !b.over && bx == by
}

func (t *TermTable) EquivBV(x, y BV) bool {
	if x.W != y.W {
		return false
	}
	for i := range x.B {
		if !t.Equiv(x.B[i], y.B[i]) {
			return false
		}
	}
	return true
}


// EquivBV3 decides equality of two words trying both variable orders; decided is false when
// neither order fits the node budget (or a term is unknown).
func (t *TermTable) EquivBV3(x, y BV, limit int) (eq, decided bool) {
	if x.W != y.W {
		return false, true
	}
	same := true
	for i := range x.B {
		if x.B[i] != y.B[i] {
			same = false
		}
	}
	if same {
		return true, true
	}
	var roots []*Node
	roots = append(roots, x.B...)
	roots = append(roots, y.B...)
	for _, r := range roots {
		if r.op == opTop {
			return false, false
		}
	}
	for _, inter := range []bool{false, true} {
		b := NewBDD(limit)
		b.declareVarsOrd(roots, inter)
		memo := map[*Node]int{}
		ok := true
		eq := true
		for i := range x.B {
			bx, ok1 := b.of(x.B[i], memo)
			by, ok2 := b.of(y.B[i], memo)
			if !ok1 || !ok2 || b.over {
				ok = false
				break
			}
			if bx != by {
				eq = false
			}
		}
		if ok {
			return eq, true
		}
	}
	return false, false
}


// simDiffer evaluates both words on 256 pseudo-random assignments of the sources (64 at a time,
// table lookups by a fixed pseudo-random function of the index value).  A difference refutes
// equivalence; agreement proves nothing and the caller goes on to a complete method.  Returns the
// lowest differing bit, or -1.
func (t *TermTable) simDiffer(x, y BV) int {
	if x.W != y.W {
		return 0
	}
	mix := func(h uint64) uint64 {
		h ^= h >> 33
		h *= 0xff51afd7ed558ccd
		h ^= h >> 33
		h *= 0xc4ceb9fe1a85ec53
		h ^= h >> 33
		return h
	}
	hashStr := func(s string) uint64 {
		h := uint64(1469598103934665603)
		for i := 0; i < len(s); i++ {
			h = (h ^ uint64(s[i])) * 1099511628211
		}
		return h
	}
	for round := uint64(0); round < 4; round++ {
		memo := map[*Node]uint64{}
		var ev func(n *Node) uint64
		ev = func(n *Node) uint64 {
			if v, ok := memo[n]; ok {
				return v
			}
			var v uint64
			switch n.op {
			case opZero:
				v = 0
			case opOne:
				v = ^uint64(0)
			case opSrc:
				v = mix(hashStr(n.src) ^ mix(uint64(n.idx)+1) ^ mix(round+77))
				if round == 3 { // a sparse round: mostly-ones words exercise carries
					v |= mix(v + 1)
				}
			case opTop:
				v = mix(uint64(n.id) + round)
			case opNot:
				v = ^ev(n.a)
			case opAnd:
				v = ev(n.a) & ev(n.b)
			case opOr:
				v = ev(n.a) | ev(n.b)
			case opXor:
				v = ev(n.a) ^ ev(n.b)
			case opMux:
				c := ev(n.c)
				v = (c & ev(n.a)) | (^c & ev(n.b))
			case opApp:
				ks := make([]uint64, len(n.kids))
				for i, k := range n.kids {
					ks[i] = ev(k)
				}
				h0 := hashStr(n.src)
				for lane := uint(0); lane < 64; lane++ {
					var idx uint64
					for i := range ks {
						idx |= (ks[i] >> lane & 1) << uint(i)
					}
					if mix(h0^mix(idx+13)^mix(uint64(n.idx)+5))&1 == 1 {
						v |= 1 << lane
					}
				}
			}
			memo[n] = v
			return v
		}
		for i := range x.B {
			if ev(x.B[i]) != ev(y.B[i]) {
				return i
			}
		}
	}
	return -1
}
