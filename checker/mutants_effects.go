package main

func init() {
	const ul = "nasMessage/NAS_ULNASTransport.go"
	const tai = "nasType/NAS_TAIList.go"
	addMutants(
		// ---- C10
		Mutant{Name: "c10-decode-aliases-input", Prop: "C10", File: ul,
			Old: "\ta.PayloadContainer.SetLen(a.PayloadContainer.GetLen())\n\tif err := binary.Read(buffer, binary.BigEndian, a.PayloadContainer.Buffer); err != nil {",
			New: "\ta.PayloadContainer.Buffer = buffer.Next(int(a.PayloadContainer.GetLen()))\n\tif err := binary.Read(buffer, binary.BigEndian, a.PayloadContainer.Buffer[:0]); err != nil {",
			Expect: "alias.none / nasMessage.(*ULNASTransport).DecodeULNASTransport", Why: "zero-copy decode: the message keeps a window into the caller's bytes"},
		Mutant{Name: "c10-decode-writes-input", Prop: "C10", File: "nas.go", Old: "\tepd := GetEPD(*byteArray)\n", New: "\tepd := GetEPD(*byteArray)\n\t(*byteArray)[0] = epd & 0x7f\n",
			Expect: "eff.input-readonly / nas.(*Message).PlainNasDecode", Why: "decoder normalises the first octet in place"},
		Mutant{Name: "c10-encode-writes-message", Prop: "C10", File: tai, Old: "func (a *TAIList) GetIei() (iei uint8) {\n\treturn a.Iei\n}", New: "func (a *TAIList) GetIei() (iei uint8) {\n\ta.Iei &= 0x7f\n\treturn a.Iei\n}",
			Expect: "eff.encode-readonly", Why: "a getter used by the encoder normalises the stored identifier"},
		Mutant{Name: "c10-hidden-state", Prop: "C10", File: tai, Old: "func (a *TAIList) GetLen() (len uint8) {\n\treturn a.Len\n}", New: "var tAIListLast uint8\n\nfunc (a *TAIList) GetLen() (len uint8) {\n\tif a.Len == 0 {\n\t\treturn tAIListLast\n\t}\n\ttAIListLast = a.Len\n\treturn a.Len\n}",
			Expect: "det.no-ambient", Why: "result depends on a package-level cache written by earlier calls"},
		Mutant{Name: "c10-encode-truncates-buffer", Prop: "C10", File: "nasMessage/NAS_ServiceReject.go", Old: "func (a *ServiceReject) EncodeServiceReject(buffer *bytes.Buffer) error {\n", New: "func (a *ServiceReject) EncodeServiceReject(buffer *bytes.Buffer) error {\n\tbuffer.Reset()\n",
			Expect: "eff.append-only / nasMessage.(*ServiceReject).EncodeServiceReject", Why: "encoder discards pre-existing buffer contents"},
		Mutant{Name: "c10-keep-readbyte", Prop: "C10", File: "nas.go", Old: "\tepd := GetEPD(*byteArray)\n", New: "\tepd := GetEPD(*byteArray)\n\t_ = len(*byteArray)\n", Keep: true, Why: "extra read of the input"},
		// ---- C19
		Mutant{Name: "c19-table-write", Prop: "C19", File: "security/snow3g/snow3g.go", Old: "func mulx(V, c byte) byte {\n", New: "func mulx(V, c byte) byte {\n\tif sq[0] != 0x25 {\n\t\tsq[0] = 0x25\n\t}\n",
			Expect: "glob.init-only / security/snow3g.mulx / security/snow3g.sq", Why: "lazy fix-up of a shared lookup table"},
		Mutant{Name: "c19-global-cache", Prop: "C19", File: tai, Old: "func (a *TAIList) GetLen() (len uint8) {\n\treturn a.Len\n}", New: "var tAIListLast uint8\n\nfunc (a *TAIList) GetLen() (len uint8) {\n\ttAIListLast = a.Len\n\treturn a.Len\n}",
			Expect: "glob.init-only / nasType.(*TAIList).GetLen / nasType.tAIListLast", Why: "package-level variable written on every call"},
		Mutant{Name: "c19-hands-out-table", Prop: "C19", File: "security/snow3g/snow3g.go", Old: "func mulx(V, c byte) byte {\n", New: "func SBoxQ() []byte { return sq[:] }\n\nfunc mulx(V, c byte) byte {\n",
			Expect: "eff.no-static / security/snow3g.SBoxQ", Why: "API returns a mutable view of a shared table"},
		Mutant{Name: "c19-getter-writes", Prop: "C19", File: tai, Old: "func (a *TAIList) GetIei() (iei uint8) {\n\treturn a.Iei\n}", New: "func (a *TAIList) GetIei() (iei uint8) {\n\ta.Iei &= 0x7f\n\treturn a.Iei\n}",
			Expect: "eff.getters-pure / nasType.(*TAIList).GetIei", Why: "read of a shared message writes it"},
		Mutant{Name: "c19-goroutine", Prop: "C19", File: "security/snow3g/snow3g.go", Old: "func mulx(V, c byte) byte {\n", New: "func warm() { go func() { _ = sr[0] }() }\n\nfunc mulx(V, c byte) byte {\n",
			Expect: "lang.no-conc", Why: "library starts a goroutine"},
		Mutant{Name: "c19-global-via-method", Prop: "C19", File: "security/snow3g/snow3g.go", Old: "func mulx(V, c byte) byte {\n", New: "type memo struct{ k, v byte }\n\nvar lastMulx memo\n\nfunc (m *memo) set(k, v byte) { m.k, m.v = k, v }\n\nfunc mulx(V, c byte) byte {\n\tlastMulx.set(V, c)\n",
			Expect: "glob.init-only", Why: "package-level memo written through a method called on it (no direct store in the caller)"},
		Mutant{Name: "c19-convert-writes-arg", Prop: "C19", File: "nasConvert/UESecurityCapability.go", Old: "\tnea[0] = buf[0] << 1\n", New: "\tbuf[0] <<= 1\n\tnea[0] = buf[0]\n\tbuf[0] >>= 1\n",
			Expect: "eff.convert-readonly / nasConvert.UESecurityCapabilityToByteArray", Why: "helper scribbles on (and restores) the contents it is reading: racy for concurrent readers"},
		Mutant{Name: "c19-keep-local-table-copy", Prop: "C19", File: "security/snow3g/snow3g.go", Old: "func mulx(V, c byte) byte {\n", New: "func sqCopy() [256]byte { t := sq; t[0] = 0; return t }\n\nfunc mulx(V, c byte) byte {\n", Keep: true,
			Why: "writes a local copy of the table, not the table"},
	)
}
