package main

// C09 (IE accessors), C11 (NAS COUNT) and the PSI part of C16 — decided with E2 (bitflow).

import (
	"encoding/json"
	"fmt"
	"go/ast"
	"go/token"
	"go/types"
	"os"
	"regexp"
	"sort"
	"strconv"
	"strings"

	"golang.org/x/tools/go/ssa"
)

func init() {
	register("C09", propC09)
	register("C11", propC11)
}

// ---------------------------------------------------------------------------------------------
// Layout table

type FieldLayout struct {
	Type   string `json:"type"`
	Field  string `json:"field"`
	Whole  bool   `json:"whole,omitempty"` // Iei / Len style: rows "[]"
	R0     int    `json:"r0"`
	R1     int    `json:"r1"`
	S      int    `json:"s"` // start bit, 8 = MSB of the octet
	N      int    `json:"n"` // width in bits; 0 with INF
	INF    bool   `json:"inf,omitempty"`
	Source string `json:"source,omitempty"`
}

type LayoutFile struct {
	Provenance string        `json:"provenance"`
	Fields     []FieldLayout `json:"fields"`
}

var annRe = regexp.MustCompile(`^\s*(\w+)\s+Row,\s*sBit,\s*len\s*=\s*\[\s*(\d*)\s*,?\s*(\d*)\s*\]\s*,\s*(\d+)\s*,\s*(\d+|INF)\s*$`)

func parseAnnLine(line string) (FieldLayout, bool) {
	line = strings.TrimPrefix(strings.TrimSpace(line), "//")
	m := annRe.FindStringSubmatch(line)
	if m == nil {
		return FieldLayout{}, false
	}
	fl := FieldLayout{Field: m[1]}
	if m[2] == "" {
		fl.Whole = true
	} else {
		fl.R0, _ = strconv.Atoi(m[2])
		fl.R1, _ = strconv.Atoi(m[3])
	}
	fl.S, _ = strconv.Atoi(m[4])
	if m[5] == "INF" {
		fl.INF = true
	} else {
		fl.N, _ = strconv.Atoi(m[5])
	}
	return fl, true
}

// liveAnnotations reads the accessor annotations of nasType: key "Type.Method" -> layout.
func liveAnnotations(w *World) map[string]FieldLayout {
	out := map[string]FieldLayout{}
	p := w.Pkg("nasType")
	for _, fd := range w.FuncDecls(p) {
		if fd.Decl.Doc == nil || fd.Decl.Recv == nil {
			continue
		}
		tn := recvTypeName(fd.Obj)
		var last *FieldLayout
		for _, c := range fd.Decl.Doc.List {
			if fl, ok := parseAnnLine(c.Text); ok {
				f := fl
				last = &f
			}
		}
		if last != nil {
			last.Type = tn
			out[tn+"."+fd.Obj.Name()] = *last
		}
	}
	return out
}

func loadLayout() (map[string]FieldLayout, error) {
	b, err := os.ReadFile(specPath("ie_layout.json"))
	if err != nil {
		return nil, err
	}
	var lf LayoutFile
	if err := json.Unmarshal(b, &lf); err != nil {
		return nil, err
	}
	out := map[string]FieldLayout{}
	for _, f := range lf.Fields {
		out[f.Type+"."+f.Field] = f
	}
	return out, nil
}

// freezeLayout prints the layout table derived from the live annotations (field-level).
func freezeLayout(w *World) {
	ann := liveAnnotations(w)
	byField := map[string]FieldLayout{}
	for k, fl := range ann {
		tn := k[:strings.Index(k, ".")]
		key := tn + "." + fl.Field
		fl.Source = "annotation"
		if old, ok := byField[key]; ok && old != fl {
			fmt.Fprintf(os.Stderr, "annotation conflict for %s: %+v vs %+v\n", key, old, fl)
		}
		byField[key] = fl
	}
	var keys []string
	for k := range byField {
		keys = append(keys, k)
	}
	sort.Strings(keys)
	lf := LayoutFile{Provenance: "generated from the in-source layout annotations of nasType at the pinned commit, then reconciled with the code and TS 24.501 figures; entries whose source is not 'annotation' were corrected by hand (reason in 'source')"}
	for _, k := range keys {
		lf.Fields = append(lf.Fields, byField[k])
	}
	b, _ := json.MarshalIndent(lf, "", " ")
	fmt.Println(string(b))
}

// ---------------------------------------------------------------------------------------------
// C09

type accessor struct {
	Type   string
	Field  string
	Get    *types.Func
	Set    *types.Func
	Layout FieldLayout
	HasLay bool
}

type bitPos struct {
	Cell string // source name, e.g. recv.Octet[5]
	Bit  int
}

// fieldBits lists the field's bit positions MSB first.
func fieldBits(fl FieldLayout, storage string) ([]bitPos, string) {
	var out []bitPos
	row, bit := fl.R0, fl.S-1
	if fl.S < 1 || fl.S > 8 {
		return nil, "start bit out of range"
	}
	for k := 0; k < fl.N; k++ {
		var cell string
		switch storage {
		case "octet":
			if row != 0 {
				return nil, "field leaves the single octet"
			}
			cell = "recv.Octet"
		case "array":
			cell = fmt.Sprintf("recv.Octet[%d]", row)
		case "buffer":
			cell = fmt.Sprintf("recv.Buffer[%d]", row)
		default:
			return nil, "unknown storage"
		}
		out = append(out, bitPos{cell, bit})
		bit--
		if bit < 0 {
			row++
			bit = 7
		}
	}
	return out, ""
}

func storageOf(nt *types.Named) (storage string, n int) {
	st, ok := nt.Underlying().(*types.Struct)
	if !ok {
		return "?", 0
	}
	storage = "none"
	for i := 0; i < st.NumFields(); i++ {
		f := st.Field(i)
		switch f.Name() {
		case "Octet":
			if isBasic(f.Type(), types.Uint8) {
				storage = "octet"
			} else if a, ok := f.Type().(*types.Array); ok {
				storage, n = "array", int(a.Len())
			}
		case "Buffer":
			storage = "buffer"
		}
	}
	return
}

func propC09(w *World, r *Report, tier string) {
	p := w.Pkg("nasType")
	frozen, err := loadLayout()
	if err != nil {
		r.Fail("spec", "-", "ie_layout.json", token.NoPos, err.Error(), nil)
		return
	}
	live := liveAnnotations(w)
	r.Explanation = "Every Get*/Set* accessor of every nasType IE struct is interpreted symbolically (E2: per-bit provenance over go/ssa, exact for " +
		"straight-line bit-vector code) on a receiver whose prior content is fully symbolic and a fully symbolic argument. The getter's result, the " +
		"setter's post-state and their composition are compared bit by bit with the documented layout (spec/ie_layout.json: rows, start bit, width). " +
		"Because provenance is computed for all values at once, each verdict covers every field value and every prior content of the element."
	r.Assumptions = []string{
		"layout oracle: spec/ie_layout.json (frozen from the in-source annotations, reconciled with code and TS 24.501 figures); accessors without a frozen entry are checked against their live annotation",
		"Buffer-indexed accessors are analysed on a buffer long enough for the access (run-time panics on short buffers are C14's subject)",
		"named exception to the frame rule: SetLen of Buffer-backed IEs re-allocates Buffer (decoder's allocation mechanism, checked by C01/C02)",
	}
	r.Trusted = []string{"go/ssa construction (x/tools v0.29.0)", "the bit-term simplifier of checker/bitflow.go", "spec/ie_layout.json"}
	r.Exhaustive = true

	// collect accessors per type
	type tinfo struct {
		named   *types.Named
		storage string
		arrN    int
		acc     map[string]*accessor
		fields  map[string]FieldLayout // all documented fields of the type
	}
	typesM := map[string]*tinfo{}
	for _, fd := range w.FuncDecls(p) {
		sig := fd.Obj.Type().(*types.Signature)
		if sig.Recv() == nil {
			continue
		}
		name := fd.Obj.Name()
		if !(strings.HasPrefix(name, "Get") || strings.HasPrefix(name, "Set")) || len(name) <= 3 {
			continue
		}
		tn := recvTypeName(fd.Obj)
		ti := typesM[tn]
		if ti == nil {
			o, _ := p.Types.Scope().Lookup(tn).(*types.TypeName)
			if o == nil {
				continue
			}
			nt := o.Type().(*types.Named)
			if _, ok := nt.Underlying().(*types.Struct); !ok {
				continue
			}
			ti = &tinfo{named: nt, acc: map[string]*accessor{}, fields: map[string]FieldLayout{}}
			ti.storage, ti.arrN = storageOf(nt)
			typesM[tn] = ti
		}
		field := name[3:]
		a := ti.acc[field]
		if a == nil {
			a = &accessor{Type: tn, Field: field}
			ti.acc[field] = a
		}
		if strings.HasPrefix(name, "Get") {
			a.Get = fd.Obj
		} else {
			a.Set = fd.Obj
		}
	}
	// resolve layouts
	for tn, ti := range typesM {
		for f, a := range ti.acc {
			if fl, ok := frozen[tn+"."+f]; ok {
				a.Layout, a.HasLay = fl, true
			} else {
				for _, m := range []string{"Get" + f, "Set" + f} {
					if fl, ok := live[tn+"."+m]; ok && fl.Field == f {
						fl.Type = tn
						a.Layout, a.HasLay = fl, true
					}
				}
			}
			if a.HasLay {
				ti.fields[f] = a.Layout
			}
		}
	}
	var tnames []string
	for tn := range typesM {
		tnames = append(tnames, tn)
	}
	sort.Strings(tnames)
	npairs := 0
	for _, tn := range tnames {
		ti := typesM[tn]
		if ti.storage == "?" {
			continue
		}
		// text getters of MobileIdentity5GS / DNN are not bit-field accessors (C12/C14)
		var fnames []string
		for f := range ti.acc {
			fnames = append(fnames, f)
		}
		sort.Strings(fnames)
		for _, f := range fnames {
			a := ti.acc[f]
			if a.Get == nil || a.Set == nil {
				// unpaired accessor: text getters etc. — not in the property's quantifier (getter/setter pairs)
				r.Site("bits.unpaired")
				continue
			}
			// text accessors (string-valued: DNN) convert, they do not read/write documented bit positions
			if sig := a.Get.Type().(*types.Signature); sig.Results().Len() == 1 {
				if b, ok := sig.Results().At(0).Type().Underlying().(*types.Basic); ok && b.Info()&types.IsString != 0 {
					r.Site("bits.text-accessor")
					r.Note("text accessor pair %s.%s is outside C09 (string conversion; see C12/C14)", tn, f)
					continue
				}
			}
			npairs++
			r.Site("bits.pairs")
			fnG, fnS := FuncName(a.Get), FuncName(a.Set)
			r.Fn(fnG)
			r.Fn(fnS)
			if !a.HasLay {
				r.Fail("bits.layout-missing", fnG, f, w.DeclOf(a.Get).Decl.Pos(), "accessor pair has neither a frozen layout entry nor a parsable annotation", nil)
				continue
			}
			checkAccessorPair(w, r, a, ti.storage, ti.arrN, ti.fields)
		}
	}
	r.Expect("bits.pairs", 700)
	checkDnnText(w, r)
	r.Extra["accessor_pairs"] = npairs
	r.Extra["types"] = len(tnames)
}

// otherFieldAt: which other documented, non-whole field of the type owns (cell, bit)?
func otherFieldAt(fields map[string]FieldLayout, self string, storage string, cell string, bit int) string {
	var names []string
	for n := range fields {
		names = append(names, n)
	}
	sort.Strings(names)
	for _, n := range names {
		fl := fields[n]
		if n == self || fl.Whole || fl.INF {
			continue
		}
		bits, bad := fieldBits(fl, storage)
		if bad != "" {
			continue
		}
		for _, b := range bits {
			if b.Cell == cell && b.Bit == bit {
				return n
			}
		}
	}
	return ""
}

func checkAccessorPair(w *World, r *Report, a *accessor, storage string, arrN int, fields map[string]FieldLayout) {
	fnG, fnS := FuncName(a.Get), FuncName(a.Set)
	gfn, sfn := w.SSAFunc(a.Get), w.SSAFunc(a.Set)
	posG, posS := a.Get.Pos(), a.Set.Pos()
	if gfn == nil || sfn == nil {
		r.Fail("bits.get", fnG, a.Field, posG, "no SSA body", nil)
		return
	}
	fl := a.Layout
	lay := fmt.Sprintf("rows [%d,%d] sBit %d len %d", fl.R0, fl.R1, fl.S, fl.N)
	if fl.INF {
		lay = fmt.Sprintf("rows [%d..] INF", fl.R0)
	}
	if fl.Whole {
		lay = "whole field"
	}

	// ---------- INF: copy-based accessors of unknown extent
	if fl.INF {
		checkINF(w, r, a, storage, fnG, fnS, gfn, sfn)
		return
	}
	newRun := func() (*Interp, *state, Ptr) {
		it := NewInterp(w)
		st := it.NewState()
		_, recv := it.SymbolicObj("recv")
		return it, st, recv
	}
	paramVal := func(it *Interp, st *state, fn *ssa.Function) (Value, string) {
		if len(fn.Params) != 2 {
			return nil, "setter does not take exactly one argument"
		}
		t := fn.Params[1].Type()
		if wd, sg, ok := typeWidth(t); ok {
			v := it.SrcBV("v", wd)
			v.Signed = sg
			return v, ""
		}
		if arr, ok := t.Underlying().(*types.Array); ok {
			ag := AggV{Cells: map[string]Value{}}
			for i := 0; i < int(arr.Len()); i++ {
				ag.Cells[fmt.Sprintf("[%d]", i)] = it.SrcBV(fmt.Sprintf("v[%d]", i), 8)
			}
			return ag, ""
		}
		if _, ok := t.Underlying().(*types.Slice); ok {
			o := it.NewObj("v", true)
			return SliceV{Obj: o, Len: -1}, ""
		}
		return nil, "unsupported parameter type " + t.String()
	}

	// ---------- whole-field accessors (Iei, Len)
	if fl.Whole {
		it, st, recv := newRun()
		res := it.Call(gfn, []Value{recv}, st, 0)
		cell := "recv." + a.Field
		okGet := false
		if bv, ok := res.(BV); ok {
			okGet = true
			for i, b := range bv.B {
				if b != it.T.Src(cell, i) {
					okGet = false
				}
			}
		}
		if !okGet || len(it.Unsup) > 0 {
			r.Fail("bits.ieilen-identity", fnG, a.Field, posG, fmt.Sprintf("getter does not return the %s field unchanged (%v %v)", a.Field, res, it.Unsup), nil)
		} else {
			r.OK("bits.ieilen-identity")
		}
		it2, st2, recv2 := newRun()
		pv, bad := paramVal(it2, st2, sfn)
		if bad != "" {
			r.Fail("bits.ieilen-identity", fnS, a.Field, posS, bad, nil)
			return
		}
		it2.Call(sfn, []Value{recv2, pv}, st2, 0)
		got := st2.mem[recv2.Obj]["."+a.Field]
		if !bvEqual(got, pv) || len(it2.Unsup) > 0 {
			r.Fail("bits.ieilen-identity", fnS, a.Field, posS, fmt.Sprintf("setter does not store its argument into %s (%v %v)", a.Field, got, it2.Unsup), nil)
			return
		}
		r.OK("bits.ieilen-identity")
		// frame: nothing else written (SetLen may re-allocate Buffer)
		for wkey := range it2.Writes {
			if wkey == cell {
				continue
			}
			if a.Field == "Len" && strings.HasPrefix(wkey, "recv.Buffer") {
				continue
			}
			if strings.HasPrefix(wkey, "recv") {
				r.Fail("bits.frame", fnS, a.Field+" writes "+strings.TrimPrefix(wkey, "recv."), posS, "setter of "+a.Field+" also writes "+wkey, nil)
			}
		}
		r.OK("bits.frame")
		return
	}

	// ---------- array-valued (copy-based) fixed-size accessors
	if len(sfn.Params) == 2 {
		if arr, ok := sfn.Params[1].Type().Underlying().(*types.Array); ok {
			n := int(arr.Len())
			if fl.N != 8*n || fl.S != 8 {
				r.Fail("bits.copy-range", fnS, a.Field, posS, fmt.Sprintf("array accessor of %d octets but layout says %s", n, lay), nil)
				return
			}
			cellOf := func(i int) string {
				if storage == "buffer" {
					return fmt.Sprintf("recv.Buffer[%d]", fl.R0+i)
				}
				return fmt.Sprintf("recv.Octet[%d]", fl.R0+i)
			}
			it, st, recv := newRun()
			res := it.Call(gfn, []Value{recv}, st, 0)
			ag, ok := res.(AggV)
			good := ok && len(it.Unsup) == 0
			if good {
				for i := 0; i < n; i++ {
					bv, ok := ag.Cells[fmt.Sprintf("[%d]", i)].(BV)
					if !ok {
						good = false
						break
					}
					for k := 0; k < 8; k++ {
						if bv.B[k] != it.T.Src(cellOf(i), k) {
							good = false
						}
					}
				}
			}
			if !good {
				r.Fail("bits.copy-range", fnG, a.Field, posG, fmt.Sprintf("getter does not return octets %d..%d (%s); %v", fl.R0, fl.R0+n-1, lay, it.Unsup), nil)
			} else {
				r.OK("bits.copy-range")
			}
			for wkey := range it.Writes {
				if strings.HasPrefix(wkey, "recv") {
					r.Fail("bits.get-pure", fnG, a.Field, posG, "getter writes "+wkey, nil)
				}
			}
			it2, st2, recv2 := newRun()
			pv, _ := paramVal(it2, st2, sfn)
			it2.Call(sfn, []Value{recv2, pv}, st2, 0)
			good = len(it2.Unsup) == 0
			written := map[string]bool{}
			for wkey := range it2.Writes {
				if strings.HasPrefix(wkey, "recv") {
					written[wkey] = true
				}
			}
			for i := 0; i < n && good; i++ {
				var got Value
				if storage == "buffer" {
					if sl, ok := st2.mem[recv2.Obj][".Buffer"].(SliceV); ok {
						got = st2.mem[sl.Obj][fmt.Sprintf("[%d]", fl.R0+i)]
					}
				} else {
					got = st2.mem[recv2.Obj][fmt.Sprintf(".Octet[%d]", fl.R0+i)]
				}
				if !bvEqual(got, pv.(AggV).Cells[fmt.Sprintf("[%d]", i)]) {
					good = false
				}
				delete(written, cellOf(i))
			}
			if !good {
				r.Fail("bits.copy-range", fnS, a.Field, posS, fmt.Sprintf("setter does not copy its argument to octets %d..%d (%s); %v", fl.R0, fl.R0+n-1, lay, it2.Unsup), nil)
			} else {
				r.OK("bits.copy-range")
			}
			for wkey := range written {
				r.Fail("bits.frame", fnS, a.Field+" writes "+strings.TrimPrefix(wkey, "recv."), posS, "setter of "+a.Field+" also writes "+wkey+" outside "+lay, nil)
			}
			if len(written) == 0 {
				r.OK("bits.frame")
			}
			return
		}
	}

	// ---------- integer bit fields
	bits, bad := fieldBits(fl, storage)
	if bad != "" || len(bits) == 0 {
		r.Fail("bits.layout", fnG, a.Field, posG, "layout entry not usable: "+bad+" ("+lay+")", nil)
		return
	}
	// getter
	it, st, recv := newRun()
	res := it.Call(gfn, []Value{recv}, st, 0)
	bv, ok := res.(BV)
	if !ok || len(it.Unsup) > 0 {
		r.Fail("bits.get", fnG, a.Field, posG, fmt.Sprintf("getter outside the modelled fragment: %v", it.Unsup), nil)
		return
	}
	n := len(bits)
	goodGet := true
	var diff string
	for i := 0; i < bv.W; i++ {
		var want *Node
		if i < n {
			bp := bits[n-1-i]
			want = it.T.Src(bp.Cell, bp.Bit)
		} else {
			want = it.T.zero
		}
		if bv.B[i] != want {
			goodGet = false
			diff = fmt.Sprintf("result bit %d is %s, documented %s", i, bv.B[i], want)
			break
		}
	}
	if n > bv.W {
		goodGet = false
		diff = fmt.Sprintf("field of %d bits returned in %d bits", n, bv.W)
	}
	if !goodGet {
		r.Fail("bits.get", fnG, a.Field, posG, "getter does not return exactly the documented bits ("+lay+"): "+diff, map[string]any{"result": bv.String()})
	} else {
		r.OK("bits.get")
		if len(r.Samples) < 4 {
			r.Sample(map[string]any{"rule": "bits.get", "func": fnG, "layout": lay, "result_msb_first": bv.String()})
		}
	}
	for wkey := range it.Writes {
		if strings.HasPrefix(wkey, "recv") {
			r.Fail("bits.get-pure", fnG, a.Field, posG, "getter writes "+wkey, nil)
		}
	}
	// setter
	it2, st2, recv2 := newRun()
	pv, bad := paramVal(it2, st2, sfn)
	if bad != "" {
		r.Fail("bits.setget", fnS, a.Field, posS, bad, nil)
		return
	}
	pbv, ok := pv.(BV)
	if !ok {
		r.Fail("bits.setget", fnS, a.Field, posS, "bit-field setter with non-integer argument", nil)
		return
	}
	it2.Call(sfn, []Value{recv2, pv}, st2, 0)
	if len(it2.Unsup) > 0 {
		r.Fail("bits.setget", fnS, a.Field, posS, fmt.Sprintf("setter outside the modelled fragment: %v", it2.Unsup), nil)
		return
	}
	// frame: every written cell, bit by bit
	own := map[string]int{} // cell|bit -> param bit index
	for k, bp := range bits {
		own[fmt.Sprintf("%s|%d", bp.Cell, bp.Bit)] = n - 1 - k
	}
	cellVal := func(st *state, recvObj *MemObj, cell string) (BV, bool) {
		rest := strings.TrimPrefix(cell, "recv")
		if strings.HasPrefix(rest, ".Buffer[") {
			sl, ok := st.mem[recvObj][".Buffer"].(SliceV)
			if !ok {
				return BV{}, false
			}
			v, ok := st.mem[sl.Obj][strings.TrimPrefix(rest, ".Buffer")].(BV)
			return v, ok
		}
		v, ok := st.mem[recvObj][rest].(BV)
		return v, ok
	}
	var wkeys []string
	for k := range it2.Writes {
		if strings.HasPrefix(k, "recv") {
			wkeys = append(wkeys, k)
		}
	}
	sort.Strings(wkeys)
	frameOK := true
	setOK := true
	ownWritten := 0
	for _, cell := range wkeys {
		v, ok := cellVal(st2, recv2.Obj, cell)
		if !ok {
			r.Fail("bits.frame", fnS, a.Field+" writes "+strings.TrimPrefix(cell, "recv."), posS, "setter writes "+cell+", which is not an octet cell", nil)
			frameOK = false
			continue
		}
		for b := 0; b < v.W; b++ {
			if pi, mine := own[fmt.Sprintf("%s|%d", cell, b)]; mine {
				ownWritten++
				var want *Node
				if pi < pbv.W {
					want = pbv.B[pi]
				} else {
					want = it2.T.zero
				}
				if v.B[b] != want && !it2.T.Equiv(v.B[b], want) {
					setOK = false
					r.Fail("bits.setget", fnS, a.Field, posS, fmt.Sprintf("after the setter, %s bit %d is %s; the documented field (%s) wants argument bit %d", cell, b, v.B[b], lay, pi), nil)
				}
				continue
			}
			if v.B[b] != it2.T.Src(cell, b) && !it2.T.Equiv(v.B[b], it2.T.Src(cell, b)) {
				other := otherFieldAt(fields, a.Field, storage, cell, b)
				if other != "" {
					frameOK = false
					r.Fail("bits.frame", fnS, a.Field+" clobbers "+other, posS,
						fmt.Sprintf("setter of %s (%s) changes %s bit %d, which belongs to field %s: new value %s", a.Field, lay, cell, b, other, v.B[b]),
						map[string]any{"cell_after_msb_first": v.String()})
				} else if cell == "recv.Len" || cell == "recv.Iei" {
					// "a setter changes no bit outside its own field: ... and its identifier and length keep their values"
					frameOK = false
					r.Fail("bits.frame", fnS, a.Field+" changes "+strings.TrimPrefix(cell, "recv."), posS,
						fmt.Sprintf("setter of %s (%s) changes bit %d of the element's %s for some values: new value %s", a.Field, lay, b, map[string]string{"recv.Len": "length", "recv.Iei": "identifier"}[cell], trunc(v.B[b].Short(5), 80)), nil)
					break
				} else {
					r.Note("observation: %s changes undocumented bit %d of %s", fnS, b, cell)
				}
			}
		}
	}
	if ownWritten < n && setOK {
		setOK = false
		r.Fail("bits.setget", fnS, a.Field, posS, fmt.Sprintf("setter writes only %d of the %d documented bits (%s)", ownWritten, n, lay), nil)
	}
	if frameOK {
		r.OK("bits.frame")
	}
	// get(set(v)) == v mod 2^n  (run the getter on the post-setter state)
	res2 := it2.Call(gfn, []Value{recv2}, st2, 0)
	g2, ok := res2.(BV)
	sgOK := ok && len(it2.Unsup) == 0
	if sgOK {
		for i := 0; i < g2.W; i++ {
			var want *Node
			if i < n && i < pbv.W {
				want = pbv.B[i]
			} else {
				want = it2.T.zero
			}
			if g2.B[i] != want && !it2.T.Equiv(g2.B[i], want) {
				sgOK = false
				break
			}
		}
	}
	if !sgOK {
		if setOK && goodGet {
			r.Fail("bits.setget", fnS, a.Field+"/compose", posS, fmt.Sprintf("get(set(v)) is not v mod 2^%d: %v", n, res2), nil)
		}
	} else if setOK {
		r.OK("bits.setget")
		if len(r.Samples) < 8 {
			r.Sample(map[string]any{"rule": "bits.setget+frame", "func": fnS, "layout": lay, "get_after_set_msb_first": g2.String()})
		}
	}
}

func checkINF(w *World, r *Report, a *accessor, storage, fnG, fnS string, gfn, sfn *ssa.Function) {
	fl := a.Layout
	if storage != "buffer" {
		r.Fail("bits.copy-range", fnG, a.Field, a.Get.Pos(), "INF field on a non-Buffer element", nil)
		return
	}
	// getter: fresh slice filled from recv.Buffer[r0:]
	it := NewInterp(w)
	st := it.NewState()
	_, recv := it.SymbolicObj("recv")
	res := it.Call(gfn, []Value{recv}, st, 0)
	want := fmt.Sprintf("src=recv.Buffer[%d:]", fl.R0)
	good := false
	if sl, ok := res.(SliceV); ok && sl.Obj != nil && !strings.HasPrefix(sl.Obj.Name, "recv") && sl.Lo == 0 {
		for _, e := range it.Effects {
			if strings.HasPrefix(e, "copy dst="+sl.Obj.Name+"[0:]") && strings.Contains(e, want+" ") {
				good = true
			}
		}
	}
	for wk := range it.Writes {
		if strings.HasPrefix(wk, "recv") {
			good = false
		}
	}
	if !good || len(it.Unsup) > 0 {
		r.Fail("bits.copy-range", fnG, a.Field, a.Get.Pos(), fmt.Sprintf("getter does not return a fresh copy of Buffer[%d:] (effects %v, %v)", fl.R0, it.Effects, it.Unsup), nil)
	} else {
		r.OK("bits.copy-range")
	}
	// setter: copy(recv.Buffer[r0:], v)
	it2 := NewInterp(w)
	st2 := it2.NewState()
	_, recv2 := it2.SymbolicObj("recv")
	if len(sfn.Params) != 2 {
		r.Fail("bits.copy-range", fnS, a.Field, a.Set.Pos(), "setter does not take exactly one argument", nil)
		return
	}
	vo := it2.NewObj("v", true)
	it2.Call(sfn, []Value{recv2, SliceV{Obj: vo, Len: -1}}, st2, 0)
	good = false
	wantD := fmt.Sprintf("copy dst=recv.Buffer[%d:]", fl.R0)
	for _, e := range it2.Effects {
		if strings.HasPrefix(e, wantD+" ") && strings.Contains(e, "src=v[0:]") {
			good = true
		}
	}
	var extra []string
	for wk := range it2.Writes {
		if strings.HasPrefix(wk, "recv") && wk != fmt.Sprintf("recv.Buffer[%d:]", fl.R0) {
			extra = append(extra, wk)
		}
	}
	if !good || len(it2.Unsup) > 0 {
		r.Fail("bits.copy-range", fnS, a.Field, a.Set.Pos(), fmt.Sprintf("setter does not copy its argument to Buffer[%d:] (effects %v, %v)", fl.R0, it2.Effects, it2.Unsup), nil)
	} else {
		r.OK("bits.copy-range")
	}
	if len(extra) > 0 {
		sort.Strings(extra)
		r.Fail("bits.frame", fnS, a.Field+" writes "+strings.TrimPrefix(extra[0], "recv."), a.Set.Pos(), "setter also writes "+strings.Join(extra, ", "), nil)
	} else {
		r.OK("bits.frame")
	}
}

var _ = ast.Inspect

// ---------------------------------------------------------------------------------------------
// C11

func propC11(w *World, r *Report, tier string) {
	r.Explanation = "Representation-independent: the abstract counter value is alpha(state) = the 24 low bits returned by Get() on a fully symbolic state; E2 shows alpha " +
		"is a pure bit selection of the representation and takes 'every representation bit outside alpha is zero' as the invariant (true of the zero value). " +
		"For every exported method the exact symbolic post-state is computed (straight-line code, or loops with compile-time trip counts and if-converted branches) " +
		"and alpha(post) is compared — as Boolean functions, with a BDD — with the specification on overflow(16)||sqn(8): SetSQN/SetOverflow/Set replace their lane, " +
		"SQN/Overflow/Get read theirs without changing alpha, AddOne is +1 modulo 2^24; the invariant is shown preserved. Every history is a composition of these " +
		"methods, so all histories from all 2^24 states are covered by induction."
	r.Assumptions = []string{"the counter is reached only through its methods (all fields unexported, checked)"}
	r.Trusted = []string{"go/ssa construction", "bit-term interpreter (checker/bitflow.go) and ROBDD equivalence (checker/bdd.go)"}
	r.Exhaustive = true
	sp := w.Pkg("security")
	tn, _ := sp.Types.Scope().Lookup("Count").(*types.TypeName)
	if tn == nil {
		panic(anchorError("security.Count"))
	}
	stt, ok := tn.Type().Underlying().(*types.Struct)
	if !ok {
		r.Fail("cnt.shape", "security.Count", "struct", tn.Pos(), "Count is not a struct", nil)
		return
	}
	// enumerate representation cells
	type cell struct {
		path string
		w    int
	}
	var cells []cell
	okShape := true
	var enum func(t types.Type, path string)
	enum = func(t types.Type, path string) {
		if wd, _, ok := typeWidth(t); ok {
			cells = append(cells, cell{path, wd})
			return
		}
		switch u := t.Underlying().(type) {
		case *types.Array:
			if u.Len() > 64 {
				okShape = false
				return
			}
			for i := int64(0); i < u.Len(); i++ {
				enum(u.Elem(), fmt.Sprintf("%s[%d]", path, i))
			}
		case *types.Struct:
			for i := 0; i < u.NumFields(); i++ {
				enum(u.Field(i).Type(), path+"."+u.Field(i).Name())
			}
		default:
			okShape = false
		}
	}
	for i := 0; i < stt.NumFields(); i++ {
		if stt.Field(i).Exported() {
			r.Fail("cnt.shape", "security.Count", "exported field "+stt.Field(i).Name(), tn.Pos(), "a counter field is exported: histories can bypass the methods", nil)
		}
		enum(stt.Field(i).Type(), "."+stt.Field(i).Name())
	}
	if !okShape || len(cells) == 0 {
		r.Fail("cnt.shape", "security.Count", "representation", tn.Pos(), "the representation is not a fixed set of integer cells: the rule does not apply", nil)
		return
	}
	r.OK("cnt.shape")
	getF := w.LookupFunc("security", "Count.Get")
	if getF == nil {
		panic(anchorError("security.(*Count).Get"))
	}
	getFn := w.SSAFunc(getF)
	mkState := func(it *Interp, zeroOutside map[string]bool) (*state, *MemObj, Ptr) {
		st := it.NewState()
		o := it.NewObj("c", false)
		st.mem[o] = map[string]Value{}
		for _, c := range cells {
			bv := it.SrcBV("c"+c.path, c.w)
			if zeroOutside != nil {
				for b := 0; b < c.w; b++ {
					if !zeroOutside[srcKey("c"+c.path, b)] {
						bv.B[b] = it.T.zero
					}
				}
			}
			st.mem[o][c.path] = bv
		}
		return st, o, Ptr{Obj: o}
	}
	// alpha on a fully symbolic state
	it0 := NewInterp(w)
	st0, _, recv0 := mkState(it0, nil)
	a0, okA := it0.Call(getFn, []Value{recv0}, st0, 0).(BV)
	support := map[string]bool{}
	pure := okA && len(it0.Unsup) == 0 && a0.W >= 24
	if pure {
		for i := 0; i < a0.W; i++ {
			n := a0.B[i]
			if i >= 24 {
				// bits above the 24-bit value: constant zero, or representation bits that the invariant keeps at zero
				if n.op != opZero && n.op != opSrc {
					pure = false
				}
				continue
			}
			if n.op != opSrc || support[srcKey(n.src, n.idx)] {
				pure = false
				break
			}
			support[srcKey(n.src, n.idx)] = true
		}
	}
	if !pure {
		r.Fail("cnt.read", FuncName(getF), "alpha", getF.Pos(), fmt.Sprintf("Get() is not a selection of 24 distinct representation bits zero-extended to 32 (value below 2^24): %v %v", a0, it0.Unsup), nil)
		return
	}
	r.OK("cnt.read")
	type spec struct {
		name   string
		params []int
		post   func(it *Interp, pre BV, ps []BV) BV // on the 24-bit abstract value
		ret    func(it *Interp, pre BV, ps []BV) *BV
	}
	keep := func(it *Interp, pre BV, ps []BV) BV { return pre }
	specs := map[string]spec{
		"SetSQN": {"SetSQN", []int{8}, func(it *Interp, pre BV, ps []BV) BV {
			o := BV{W: 24, B: append([]*Node{}, pre.B...)}
			copy(o.B[0:8], ps[0].B)
			return o
		}, nil},
		"SetOverflow": {"SetOverflow", []int{16}, func(it *Interp, pre BV, ps []BV) BV {
			o := BV{W: 24, B: append([]*Node{}, pre.B...)}
			copy(o.B[8:24], ps[0].B)
			return o
		}, nil},
		"Set": {"Set", []int{16, 8}, func(it *Interp, pre BV, ps []BV) BV {
			o := BV{W: 24, B: make([]*Node, 24)}
			copy(o.B[8:24], ps[0].B)
			copy(o.B[0:8], ps[1].B)
			return o
		}, nil},
		"SQN":      {"SQN", nil, keep, func(it *Interp, pre BV, ps []BV) *BV { v := BV{W: 8, B: pre.B[0:8]}; return &v }},
		"Overflow": {"Overflow", nil, keep, func(it *Interp, pre BV, ps []BV) *BV { v := BV{W: 16, B: pre.B[8:24]}; return &v }},
		"Get": {"Get", nil, keep, func(it *Interp, pre BV, ps []BV) *BV {
			o := BV{W: 32, B: make([]*Node, 32)}
			copy(o.B, pre.B)
			for i := 24; i < 32; i++ {
				o.B[i] = it.T.zero
			}
			return &o
		}},
		"AddOne": {"AddOne", nil, func(it *Interp, pre BV, ps []BV) BV {
			return it.add(pre, it.constBV(1, 24), it.T.zero)
		}, nil},
	}
	ms := types.NewMethodSet(types.NewPointer(tn.Type()))
	for i := 0; i < ms.Len(); i++ {
		m := ms.At(i).Obj().(*types.Func)
		if !m.Exported() {
			continue
		}
		r.Site("cnt.methods")
		fname := FuncName(m)
		r.Fn(fname)
		s, ok := specs[m.Name()]
		if !ok {
			r.Fail("cnt.methods", fname, "unspecified", m.Pos(), "exported method "+m.Name()+" has no specification in the rule: histories through it are not covered", nil)
			continue
		}
		fn := w.SSAFunc(m)
		if fn == nil || len(fn.Params) != 1+len(s.params) {
			r.Fail("cnt.methods", fname, "signature", m.Pos(), "unexpected signature", nil)
			continue
		}
		it := NewInterp(w)
		st, o, recv := mkState(it, support)
		// alpha(pre)
		pre := BV{W: 24, B: make([]*Node, 24)}
		{
			stc := st.clone()
			a, _ := it.Call(getFn, []Value{recv}, stc, 0).(BV)
			if a.W < 24 {
				r.Fail("cnt.transfer", fname, "alpha(pre)", m.Pos(), "cannot evaluate Get() on the pre-state", nil)
				continue
			}
			copy(pre.B, a.B[0:24])
		}
		args := []Value{recv}
		var ps []BV
		for k, wd := range s.params {
			p := it.SrcBV(fmt.Sprintf("p%d", k), wd)
			ps = append(ps, p)
			args = append(args, p)
		}
		res := it.Call(fn, args, st, 0)
		if len(it.Unsup) > 0 {
			r.Fail("cnt.transfer", fname, "fragment", m.Pos(), fmt.Sprintf("outside the modelled fragment: %v", it.Unsup), nil)
			continue
		}
		// invariant: representation bits outside alpha stay zero
		inv := true
		for _, c := range cells {
			bv, _ := st.mem[o][c.path].(BV)
			for b := 0; b < bv.W; b++ {
				if !support[srcKey("c"+c.path, b)] && !it.T.Equiv(bv.B[b], it.T.zero) {
					inv = false
				}
			}
		}
		if !inv {
			r.Fail("cnt.inv24", fname, "bits outside the 24-bit value", m.Pos(), "method does not preserve 'value < 2^24' (a representation bit outside the counter value can become 1)", nil)
		} else {
			r.OK("cnt.inv24")
		}
		// alpha(post)
		stp := st.clone()
		ap, okp := it.Call(getFn, []Value{recv}, stp, 0).(BV)
		want := s.post(it, pre, ps)
		okT := okp && ap.W >= 24
		diff := ""
		if okT {
			for b := 0; b < 24; b++ {
				if !it.T.Equiv(ap.B[b], want.B[b]) {
					okT = false
					diff = fmt.Sprintf("value bit %d after the call is %s, specification %s", b, trunc(ap.B[b].String(), 160), trunc(want.B[b].String(), 160))
					break
				}
			}
		}
		if !okT {
			rule := "cnt.transfer"
			switch m.Name() {
			case "SetSQN":
				rule = "cnt.setsqn"
			case "SetOverflow":
				rule = "cnt.setovf"
			case "AddOne":
				rule = "cnt.addone"
			case "SQN", "Overflow", "Get":
				rule = "cnt.read"
			}
			r.Fail(rule, fname, "post-state", m.Pos(), "transfer function differs from the specification: "+diff, nil)
		} else {
			r.OK("cnt.transfer")
			if len(r.Samples) < 8 {
				r.Sample(map[string]any{"rule": "cnt.transfer", "method": m.Name(), "alpha_post_msb_first": trunc(BV{W: 24, B: ap.B[0:24]}.String(), 400)})
			}
		}
		if s.ret != nil {
			wr := s.ret(it, pre, ps)
			rb, okr := res.(BV)
			if !okr || !it.T.EquivBV(rb, *wr) {
				r.Fail("cnt.read", fname, "result", m.Pos(), fmt.Sprintf("returns %v, specification %v", res, *wr), nil)
			} else {
				r.OK("cnt.read")
			}
		}
	}
	r.Expect("cnt.methods", 7)
}

func trunc(s string, n int) string {
	if len(s) > n {
		return s[:n] + "…"
	}
	return s
}


// checkDnnText (text.dnn): the DNN text accessors at concrete label layouts (E2 with reader and
// text models): GetDNN returns exactly the labels of the buffer joined by '.', empty labels
// included; SetDNN stores exactly the length-prefixed labels of the dotted text and sets Len to
// their total size.
func checkDnnText(w *World, r *Report) {
	get := w.LookupFunc("nasType", "DNN.GetDNN")
	set := w.LookupFunc("nasType", "DNN.SetDNN")
	if get == nil || set == nil {
		r.Fail("anchor", "nasType.DNN.GetDNN/SetDNN", "missing", token.NoPos, "DNN text accessors not found", nil)
		return
	}
	shapes := [][]int{{3}, {8}, {3, 2}, {1, 1, 1}, {0}, {3, 0}, {0, 3}, {3, 0, 2}, {0, 0}}
	letter := func(it *Interp, name string) BV { // a character that cannot be '.'
		ch := it.constBV(0x60, 8)
		copy(ch.B[0:5], it.SrcBV(name, 5).B)
		return ch
	}
	for _, shape := range shapes {
		// labels -> text
		{
			r.Site("text.dnn")
			it := NewInterp(w)
			it.Fuel = 100000
			readerModels(it)
			st := it.NewState()
			bo := it.NewObj("buf", false)
			st.mem[bo] = map[string]Value{}
			var want []BV
			off := 0
			for li, l := range shape {
				st.mem[bo][fmt.Sprintf("[%d]", off)] = it.constBV(uint64(l), 8)
				off++
				if li > 0 {
					want = append(want, it.constBV('.', 8))
				}
				for k := 0; k < l; k++ {
					ch := letter(it, fmt.Sprintf("c%d_%d", li, k))
					st.mem[bo][fmt.Sprintf("[%d]", off)] = ch
					want = append(want, ch)
					off++
				}
			}
			ro, recv := it.SymbolicObj("dnn")
			st.mem[ro] = map[string]Value{".Buffer": SliceV{Obj: bo, Len: off}, ".Len": it.constBV(uint64(off), 8)}
			res := it.Call(w.SSAFunc(get), []Value{recv}, st, 0)
			good, why := len(it.Unsup) == 0, fmt.Sprintf("undecided: %v", it.Unsup)
			if good {
				var got []BV
				switch s := res.(type) {
				case StrV:
					got, _ = toCharsOf(it, s)
				default:
					good, why = false, "result is not a text"
				}
				if good && len(got) != len(want) {
					good, why = false, fmt.Sprintf("%d characters returned, the labels make %d", len(got), len(want))
				}
				for i := 0; good && i < len(want); i++ {
					if ok, m := sameBV(it, BV{W: 8, B: got[i].B}, want[i]); !ok {
						good, why = false, fmt.Sprintf("character %d: %s", i, m)
					}
				}
			}
			if good {
				r.OK("text.dnn")
			} else {
				r.Fail("text.dnn", FuncName(get), fmt.Sprintf("label lengths %v", shape), get.Pos(), "GetDNN does not return the labels joined by '.': "+why, nil)
			}
		}
		// text -> labels
		{
			r.Site("text.dnn")
			it := NewInterp(w)
			it.Fuel = 100000
			st := it.NewState()
			txt := StrV{Sym: true}
			var want []BV
			for li, l := range shape {
				if li > 0 {
					txt.Chars = append(txt.Chars, it.constBV('.', 8))
				}
				want = append(want, it.constBV(uint64(l), 8))
				for k := 0; k < l; k++ {
					ch := letter(it, fmt.Sprintf("c%d_%d", li, k))
					txt.Chars = append(txt.Chars, ch)
					want = append(want, ch)
				}
			}
			ro, recv := it.SymbolicObj("dnn")
			it.Call(w.SSAFunc(set), []Value{recv, txt}, st, 0)
			good, why := len(it.Unsup) == 0, fmt.Sprintf("undecided: %v", it.Unsup)
			if good {
				buf, ok := st.mem[ro][".Buffer"].(SliceV)
				got, okB := sliceBytes(it, st, buf)
				if !ok || !okB || len(got) != len(want) {
					good, why = false, fmt.Sprintf("Buffer has %d octets, the length-prefixed labels make %d", len(got), len(want))
				}
				for i := 0; good && i < len(want); i++ {
					if ok, m := sameBV(it, got[i], want[i]); !ok {
						good, why = false, fmt.Sprintf("octet %d: %s", i, m)
					}
				}
				if good {
					if ok, m := sameBV(it, st.mem[ro][".Len"], it.constBV(uint64(len(want)), 8)); !ok {
						good, why = false, "Len: "+m
					}
				}
			}
			if good {
				r.OK("text.dnn")
			} else {
				r.Fail("text.dnn", FuncName(set), fmt.Sprintf("label lengths %v", shape), set.Pos(), "SetDNN does not store the length-prefixed labels of the text: "+why, nil)
			}
		}
	}
	r.Expect("text.dnn", 18)
}
