package main

// Dispatch extractor for nas.go / nas_generated.go (serves C05, C02 dispatch duality, C01).

import (
	"go/ast"
	"go/constant"
	"go/token"
	"go/types"
	"strconv"
	"strings"
)

type DispArm struct {
	Value     int64
	ConstName string
	Body      string // nasMessage type name
	StoreOK   bool   // decode: exactly one store, a.<Fam>.<Body> = nasMessage.New<Body>(..) (fresh)
	CallOK    bool   // calls (*nasMessage.<Body>).{Decode,Encode}<Body> through the field <Body> with the function's own argument
	Pos       token.Pos
	Bad       []string
}

type DispFunc struct {
	Name        string
	Family      string // GmmMessage | GsmMessage
	Decl        *ast.FuncDecl
	Decode      bool
	InitOK      bool // decode: buffer over *byteArray; fresh family struct stored; header read with error -> non-nil error return
	HeaderIdx   int  // index of the message-type octet in the header (from the getter's body), -1 unknown
	HeaderLen   int
	TagOK       bool // switch tag is <fam>.<hdr>.GetMessageType()
	Arms        []DispArm
	DefaultErr  bool // default arm returns a provably non-nil error
	AllReturn   bool // every arm ends in return; nothing after the switch
	Problems    []Problem
}

func (d *DispFunc) problem(pos token.Pos, msg string) {
	d.Problems = append(d.Problems, Problem{Func: d.Name, Pos: pos, Msg: msg})
}

type Dispatch struct {
	Funcs map[string]*DispFunc // GmmMessageDecode, GsmMessageDecode, GmmMessageEncode, GsmMessageEncode
	Plain *PlainDecode
	PEnc  *PlainEncode
	// Semantic: per function, how dispatch_sem.go decided it (or why it could not)
	Semantic map[string]string
}

type PlainDecode struct {
	NilGuard, EmptyGuard bool
	GuardsDominate       bool
	EPDFromFirstOctet    bool
	Arms                 map[int64]string // epd value -> method called
	ArmsArgOK            bool
	TailErr              bool
	Problems             []Problem
}

type PlainEncode struct {
	Branches []string // family tested, in order
	CallOK   bool
	TailErr  bool
	Problems []Problem
}

func ExtractDispatch(w *World, cs *CodecSet) *Dispatch {
	p := w.Pkg("")
	info := p.TypesInfo
	d := &Dispatch{Funcs: map[string]*DispFunc{}}
	for _, fd := range w.FuncDecls(p) {
		switch fd.Obj.Name() {
		case "GmmMessageDecode", "GsmMessageDecode", "GmmMessageEncode", "GsmMessageEncode":
			if recvTypeName(fd.Obj) == "Message" {
				d.Funcs[fd.Obj.Name()] = extractDispFunc(w, cs, info, fd)
			}
		case "PlainNasDecode":
			if recvTypeName(fd.Obj) == "Message" {
				d.Plain = extractPlainDecode(w, info, fd)
			}
		case "PlainNasEncode":
			if recvTypeName(fd.Obj) == "Message" {
				d.PEnc = extractPlainEncode(w, info, fd)
			}
		}
	}
	refineDispatch(w, d)
	return d
}

func recvTypeName(f *types.Func) string {
	sig := f.Type().(*types.Signature)
	if sig.Recv() == nil {
		return ""
	}
	t := sig.Recv().Type()
	if p, ok := t.(*types.Pointer); ok {
		t = p.Elem()
	}
	if n, ok := t.(*types.Named); ok {
		return n.Obj().Name()
	}
	return ""
}

// selPath flattens a.B.C into ["a","B","C"].
func selPath(e ast.Expr) []string {
	e = ast.Unparen(e)
	switch n := e.(type) {
	case *ast.Ident:
		return []string{n.Name}
	case *ast.SelectorExpr:
		p := selPath(n.X)
		if p == nil {
			return nil
		}
		return append(p, n.Sel.Name)
	}
	return nil
}

func isNilIdent(e ast.Expr) bool {
	id, ok := ast.Unparen(e).(*ast.Ident)
	return ok && id.Name == "nil"
}

// nonNilErrorExpr: fmt.Errorf(...) / errors.New(...)
func nonNilErrorExpr(info *types.Info, e ast.Expr) bool {
	call, ok := ast.Unparen(e).(*ast.CallExpr)
	if !ok {
		return false
	}
	switch fullName(calleeOf(info, call)) {
	case "fmt.Errorf", "errors.New":
		return true
	}
	return false
}

// headerTypeIndex analyses (*XHeader).GetMessageType: returns k when the body returns a.Octet[k].
func headerTypeIndex(w *World, hdr *types.Named) (idx, n int) {
	idx, n = -1, -1
	st, _ := hdr.Underlying().(*types.Struct)
	if st != nil && st.NumFields() == 1 {
		if a, ok := st.Field(0).Type().(*types.Array); ok && st.Field(0).Name() == "Octet" {
			n = int(a.Len())
		}
	}
	p := w.Pkg("")
	for _, fd := range w.FuncDecls(p) {
		if fd.Obj.Name() != "GetMessageType" || recvTypeName(fd.Obj) != hdr.Obj().Name() || fd.Decl.Body == nil {
			continue
		}
		recv := recvName(fd.Decl)
		var expr ast.Expr
		for _, s := range fd.Decl.Body.List {
			switch st := s.(type) {
			case *ast.AssignStmt:
				if len(st.Rhs) == 1 {
					expr = st.Rhs[0]
				}
			case *ast.ReturnStmt:
				if len(st.Results) == 1 {
					if _, isID := st.Results[0].(*ast.Ident); !isID {
						expr = st.Results[0]
					}
				}
			default:
				return -1, n
			}
		}
		if ix, ok := ast.Unparen(expr).(*ast.IndexExpr); ok && isSel(ix.X, recv, "Octet") {
			if tv, ok := p.TypesInfo.Types[ix.Index]; ok && tv.Value != nil {
				if v, ok := constant.Int64Val(constant.ToInt(tv.Value)); ok {
					idx = int(v)
				}
			}
		}
	}
	return
}

func extractDispFunc(w *World, cs *CodecSet, info *types.Info, fd FuncDecl) *DispFunc {
	d := &DispFunc{Name: FuncName(fd.Obj), Decl: fd.Decl, Decode: strings.HasSuffix(fd.Obj.Name(), "Decode"), HeaderIdx: -1}
	d.Family = strings.TrimSuffix(strings.TrimSuffix(fd.Obj.Name(), "Decode"), "Encode") // GmmMessage
	recv := recvName(fd.Decl)
	param := fd.Decl.Type.Params.List[0].Names[0].Name
	hdrName := strings.TrimSuffix(d.Family, "Message") + "Header"
	if tn, ok := w.Pkg("").Types.Scope().Lookup(hdrName).(*types.TypeName); ok {
		if nt, ok := tn.Type().(*types.Named); ok {
			d.HeaderIdx, d.HeaderLen = headerTypeIndex(w, nt)
		}
	}
	stmts := fd.Decl.Body.List
	i := 0
	if d.Decode {
		bufName := ""
		okBuf, okFresh, okRead := false, false, false
		for ; i < len(stmts); i++ {
			if _, ok := stmts[i].(*ast.SwitchStmt); ok {
				break
			}
			switch st := stmts[i].(type) {
			case *ast.AssignStmt:
				if len(st.Lhs) == 1 && len(st.Rhs) == 1 {
					if call, ok := st.Rhs[0].(*ast.CallExpr); ok {
						fn := calleeOf(info, call)
						if fullName(fn) == "bytes.NewBuffer" && len(call.Args) == 1 {
							if se, ok := ast.Unparen(call.Args[0]).(*ast.StarExpr); ok {
								if id, ok := ast.Unparen(se.X).(*ast.Ident); ok && id.Name == param {
									bufName = st.Lhs[0].(*ast.Ident).Name
									okBuf = true
									continue
								}
							}
						}
						// a.GmmMessage = NewGmmMessage()
						if pth := selPath(st.Lhs[0]); len(pth) == 2 && pth[0] == recv && pth[1] == d.Family && fn != nil && len(call.Args) == 0 {
							if fdc := w.DeclOf(fn); fdc != nil && freshStructCtor(fdc.Decl) {
								okFresh = true
								continue
							}
						}
					}
				}
				d.problem(st.Pos(), "unclassified statement before the switch: "+nodeSummary(w.Fset, st))
			case *ast.IfStmt:
				// header read
				if as, ok := st.Init.(*ast.AssignStmt); ok && len(as.Rhs) == 1 {
					if call, ok := as.Rhs[0].(*ast.CallExpr); ok && fullName(calleeOf(info, call)) == "encoding/binary.Read" && len(call.Args) == 3 {
						if id, ok := ast.Unparen(call.Args[0]).(*ast.Ident); ok && id.Name == bufName {
							if u, ok := ast.Unparen(call.Args[2]).(*ast.UnaryExpr); ok && u.Op == token.AND {
								if pth := selPath(u.X); len(pth) == 3 && pth[0] == recv && pth[1] == d.Family && pth[2] == hdrName {
									errObj := info.Defs[as.Lhs[0].(*ast.Ident)]
									if be, ok := ast.Unparen(st.Cond).(*ast.BinaryExpr); ok && be.Op == token.NEQ && isNilIdent(be.Y) {
										if id, ok := ast.Unparen(be.X).(*ast.Ident); ok && info.Uses[id] == errObj && len(st.Body.List) == 1 {
											if r, ok := st.Body.List[0].(*ast.ReturnStmt); ok && len(r.Results) == 1 {
												if nonNilErrorExpr(info, r.Results[0]) {
													okRead = true
													continue
												} else if rid, ok := r.Results[0].(*ast.Ident); ok && info.Uses[rid] == errObj {
													okRead = true
													continue
												}
												d.problem(st.Pos(), "header read failure does not return a provably non-nil error")
												continue
											}
										}
									}
								}
							}
						}
					}
				}
				d.problem(st.Pos(), "unclassified if before the switch: "+nodeSummary(w.Fset, st))
			default:
				d.problem(stmts[i].Pos(), "unclassified statement before the switch: "+nodeSummary(w.Fset, stmts[i]))
			}
		}
		d.InitOK = okBuf && okFresh && okRead
		if !d.InitOK {
			d.problem(fd.Decl.Pos(), "prologue incomplete: buffer over input / fresh family struct / checked header read")
		}
	}
	if i >= len(stmts) {
		d.problem(fd.Decl.Pos(), "no message-type switch")
		return d
	}
	sw, ok := stmts[i].(*ast.SwitchStmt)
	if !ok {
		d.problem(stmts[i].Pos(), "unclassified statement: "+nodeSummary(w.Fset, stmts[i]))
		return d
	}
	d.AllReturn = i == len(stmts)-1
	if !d.AllReturn {
		d.problem(stmts[i+1].Pos(), "statements after the switch")
	}
	// tag: a.Fam.Hdr.GetMessageType()
	if call, ok := ast.Unparen(sw.Tag).(*ast.CallExpr); ok && sw.Init == nil && len(call.Args) == 0 {
		if pth := selPath(call.Fun); len(pth) == 4 && pth[0] == recv && pth[1] == d.Family && pth[2] == hdrName && pth[3] == "GetMessageType" {
			d.TagOK = d.HeaderIdx >= 0
		} else if len(pth) == 3 && pth[0] == recv && pth[1] == d.Family && pth[2] == "GetMessageType" {
			// promoted through the embedded header
			if fn := calleeOf(info, call); fn != nil && recvTypeName(fn) == hdrName {
				d.TagOK = d.HeaderIdx >= 0
			}
		}
	}
	if !d.TagOK {
		d.problem(sw.Pos(), "switch tag is not the message-type octet of the "+hdrName)
	}
	for _, cl := range sw.Body.List {
		cc := cl.(*ast.CaseClause)
		if cc.List == nil {
			if len(cc.Body) == 1 {
				if r, ok := cc.Body[0].(*ast.ReturnStmt); ok && len(r.Results) == 1 && nonNilErrorExpr(info, r.Results[0]) {
					d.DefaultErr = true
				}
			}
			continue
		}
		for _, lbl := range cc.List {
			arm := DispArm{Pos: cc.Pos()}
			tv, ok := info.Types[lbl]
			if !ok || tv.Value == nil {
				arm.Bad = append(arm.Bad, "case label is not a constant")
				d.Arms = append(d.Arms, arm)
				continue
			}
			arm.Value, _ = constant.Int64Val(constant.ToInt(tv.Value))
			if id, ok := ast.Unparen(lbl).(*ast.Ident); ok {
				arm.ConstName = id.Name
			}
			analyseArm(w, cs, info, d, &arm, cc.Body, recv, param)
			d.Arms = append(d.Arms, arm)
		}
	}
	return d
}

// freshStructCtor: X := &T{}; return X   or   return &T{}
func freshStructCtor(fd *ast.FuncDecl) bool {
	if fd.Body == nil {
		return false
	}
	isFresh := func(e ast.Expr) bool {
		u, ok := ast.Unparen(e).(*ast.UnaryExpr)
		if !ok || u.Op != token.AND {
			return false
		}
		_, ok = u.X.(*ast.CompositeLit)
		return ok
	}
	v := ""
	for _, s := range fd.Body.List {
		switch st := s.(type) {
		case *ast.AssignStmt:
			if len(st.Lhs) != 1 || len(st.Rhs) != 1 || !isFresh(st.Rhs[0]) {
				return false
			}
			id, ok := st.Lhs[0].(*ast.Ident)
			if !ok {
				return false
			}
			v = id.Name
		case *ast.ReturnStmt:
			if len(st.Results) == 0 {
				return v != ""
			}
			if len(st.Results) != 1 {
				return false
			}
			if isFresh(st.Results[0]) {
				return true
			}
			id, ok := st.Results[0].(*ast.Ident)
			return ok && v != "" && id.Name == v
		default:
			return false
		}
	}
	return false
}

func analyseArm(w *World, cs *CodecSet, info *types.Info, d *DispFunc, arm *DispArm, body []ast.Stmt, recv, param string) {
	stores := 0
	var stored string
	for k, s := range body {
		switch st := s.(type) {
		case *ast.AssignStmt:
			if !d.Decode {
				arm.Bad = append(arm.Bad, "assignment in encode arm")
				continue
			}
			pth := selPath(st.Lhs[0])
			if len(st.Lhs) != 1 || len(st.Rhs) != 1 || len(pth) != 3 || pth[0] != recv || pth[1] != d.Family {
				arm.Bad = append(arm.Bad, "unclassified assignment "+nodeSummary(w.Fset, st))
				continue
			}
			stores++
			stored = pth[2]
			call, ok := st.Rhs[0].(*ast.CallExpr)
			if !ok {
				arm.Bad = append(arm.Bad, "body pointer is not assigned a constructor result")
				continue
			}
			fn := calleeOf(info, call)
			c := cs.ByName[stored]
			if fn == nil || c == nil || c.NewObj != fn {
				arm.Bad = append(arm.Bad, "body pointer "+stored+" is not assigned nasMessage.New"+stored+"(..)")
				continue
			}
			if fdc := w.DeclOf(fn); fdc == nil || !freshStructCtor(fdc.Decl) {
				arm.Bad = append(arm.Bad, "constructor of "+stored+" does not return a fresh value")
				continue
			}
			arm.StoreOK = true
		case *ast.ReturnStmt:
			if k != len(body)-1 || len(st.Results) != 1 {
				arm.Bad = append(arm.Bad, "unexpected return")
				continue
			}
			call, ok := ast.Unparen(st.Results[0]).(*ast.CallExpr)
			if !ok || len(call.Args) != 1 {
				arm.Bad = append(arm.Bad, "arm does not return the body codec's result")
				continue
			}
			fn := calleeOf(info, call)
			if fn == nil {
				arm.Bad = append(arm.Bad, "unresolved callee")
				continue
			}
			body := recvTypeName(fn)
			c := cs.ByName[body]
			want := c != nil && ((d.Decode && c.DecObj == fn) || (!d.Decode && c.EncObj == fn))
			if !want {
				arm.Bad = append(arm.Bad, "arm calls "+FuncName(fn)+", not a message codec of the right direction")
				continue
			}
			arm.Body = body
			// the selection must go through a.<Family>.<Body>
			if se, ok := call.Fun.(*ast.SelectorExpr); ok {
				if pth := selPath(se.X); !(len(pth) == 2 && pth[0] == recv && pth[1] == d.Family) && !(len(pth) == 3 && pth[0] == recv && pth[1] == d.Family && pth[2] == body) {
					arm.Bad = append(arm.Bad, "codec is not invoked on this message's "+d.Family)
					continue
				}
				if sel := info.Selections[se]; sel != nil {
					// the implicit field path must select the embedded *nasMessage.<Body>
					t := sel.Recv()
					if p, ok := t.(*types.Pointer); ok {
						t = p.Elem()
					}
					okPath := false
					if st, ok := t.Underlying().(*types.Struct); ok && len(sel.Index()) >= 2 {
						okPath = st.Field(sel.Index()[0]).Name() == body
					} else if len(sel.Index()) == 1 {
						okPath = true // explicit a.Fam.Body.Method
					}
					if !okPath {
						arm.Bad = append(arm.Bad, "method is promoted through a field other than "+body)
						continue
					}
				}
			}
			if id, ok := ast.Unparen(call.Args[0]).(*ast.Ident); !ok || id.Name != param {
				arm.Bad = append(arm.Bad, "codec is not given this function's own argument")
				continue
			}
			arm.CallOK = true
		default:
			arm.Bad = append(arm.Bad, "unclassified statement "+nodeSummary(w.Fset, s))
		}
	}
	if d.Decode {
		if stores != 1 {
			arm.StoreOK = false
			arm.Bad = append(arm.Bad, "arm stores "+itoa(stores)+" body pointers (want exactly 1)")
		} else if arm.Body != "" && stored != arm.Body {
			arm.StoreOK = false
			arm.Bad = append(arm.Bad, "arm allocates "+stored+" but decodes "+arm.Body)
		}
	}
	if len(body) == 0 {
		arm.Bad = append(arm.Bad, "empty arm")
	}
}

func itoa(i int) string { return strconv.Itoa(i) }

func extractPlainDecode(w *World, info *types.Info, fd FuncDecl) *PlainDecode {
	pd := &PlainDecode{Arms: map[int64]string{}}
	name := FuncName(fd.Obj)
	prob := func(pos token.Pos, m string) { pd.Problems = append(pd.Problems, Problem{name, pos, m}) }
	recv := recvName(fd.Decl)
	param := fd.Decl.Type.Params.List[0].Names[0].Name
	epdVar := ""
	firstUse := -1
	for k, s := range fd.Decl.Body.List {
		switch st := s.(type) {
		case *ast.IfStmt:
			if st.Init != nil || st.Else != nil || len(st.Body.List) != 1 {
				prob(st.Pos(), "unclassified if")
				continue
			}
			r, ok := st.Body.List[0].(*ast.ReturnStmt)
			if !ok || len(r.Results) != 1 || !nonNilErrorExpr(info, r.Results[0]) {
				prob(st.Pos(), "guard does not return a provably non-nil error")
				continue
			}
			be, ok := ast.Unparen(st.Cond).(*ast.BinaryExpr)
			if !ok {
				prob(st.Pos(), "unclassified guard")
				continue
			}
			if be.Op == token.EQL && isNilIdent(be.Y) {
				if id, ok := ast.Unparen(be.X).(*ast.Ident); ok && id.Name == param {
					pd.NilGuard = true
					if firstUse >= 0 {
						prob(st.Pos(), "nil guard after first use")
					}
					continue
				}
			}
			// len(*byteArray) == 0  (or < 1)
			if call, ok := ast.Unparen(be.X).(*ast.CallExpr); ok && len(call.Args) == 1 {
				if id, ok := call.Fun.(*ast.Ident); ok && id.Name == "len" && info.Uses[id] == types.Universe.Lookup("len") {
					if se, ok := ast.Unparen(call.Args[0]).(*ast.StarExpr); ok {
						if pid, ok := ast.Unparen(se.X).(*ast.Ident); ok && pid.Name == param {
							if tv, ok := info.Types[be.Y]; ok && tv.Value != nil {
								v, _ := constant.Int64Val(constant.ToInt(tv.Value))
								if (be.Op == token.EQL && v == 0) || (be.Op == token.LSS && v >= 1) || (be.Op == token.LEQ && v >= 0) {
									pd.EmptyGuard = true
									if !pd.NilGuard {
										prob(st.Pos(), "empty guard dereferences the pointer before the nil guard")
									}
									if firstUse >= 0 {
										prob(st.Pos(), "empty guard after first use")
									}
									continue
								}
							}
						}
					}
				}
			}
			prob(st.Pos(), "unclassified guard: "+types.ExprString(st.Cond))
		case *ast.AssignStmt:
			// epd := GetEPD(*byteArray)
			if len(st.Lhs) == 1 && len(st.Rhs) == 1 {
				if call, ok := st.Rhs[0].(*ast.CallExpr); ok && len(call.Args) == 1 {
					fn := calleeOf(info, call)
					if fn != nil && fn.Pkg() == w.Pkg("").Types {
						if fdc := w.DeclOf(fn); fdc != nil && returnsParamIndex0(fdc.Decl) {
							if se, ok := ast.Unparen(call.Args[0]).(*ast.StarExpr); ok {
								if pid, ok := ast.Unparen(se.X).(*ast.Ident); ok && pid.Name == param {
									epdVar = st.Lhs[0].(*ast.Ident).Name
									pd.EPDFromFirstOctet = true
									firstUse = k
									continue
								}
							}
						}
					}
				}
			}
			prob(st.Pos(), "unclassified assignment")
		case *ast.SwitchStmt:
			if id, ok := ast.Unparen(st.Tag).(*ast.Ident); !ok || id.Name != epdVar || st.Init != nil {
				prob(st.Pos(), "switch tag is not the discriminator octet")
				continue
			}
			pd.ArmsArgOK = true
			for _, cl := range st.Body.List {
				cc := cl.(*ast.CaseClause)
				if cc.List == nil {
					if !(len(cc.Body) == 1 && isErrReturn(info, cc.Body[0])) && len(cc.Body) != 0 {
						prob(cc.Pos(), "default arm is not an error return")
					}
					if len(cc.Body) == 1 && isErrReturn(info, cc.Body[0]) {
						pd.TailErr = true
					}
					continue
				}
				for _, lbl := range cc.List {
					tv, ok := info.Types[lbl]
					if !ok || tv.Value == nil {
						prob(lbl.Pos(), "non-constant case label")
						continue
					}
					v, _ := constant.Int64Val(constant.ToInt(tv.Value))
					callee := ""
					if len(cc.Body) == 1 {
						if r, ok := cc.Body[0].(*ast.ReturnStmt); ok && len(r.Results) == 1 {
							if call, ok := ast.Unparen(r.Results[0]).(*ast.CallExpr); ok && len(call.Args) == 1 {
								if fn := calleeOf(info, call); fn != nil && recvTypeName(fn) == "Message" {
									if pth := selPath(call.Fun); len(pth) == 2 && pth[0] == recv {
										callee = fn.Name()
									}
									if id, ok := ast.Unparen(call.Args[0]).(*ast.Ident); !ok || id.Name != param {
										pd.ArmsArgOK = false
									}
								}
							}
						}
					}
					if callee == "" {
						prob(cc.Pos(), "arm does not return a family decoder's result")
					}
					pd.Arms[v] = callee
				}
			}
		case *ast.ReturnStmt:
			if k == len(fd.Decl.Body.List)-1 && len(st.Results) == 1 && nonNilErrorExpr(info, st.Results[0]) {
				pd.TailErr = true
				continue
			}
			prob(st.Pos(), "final return is not a provably non-nil error")
		default:
			prob(s.Pos(), "unclassified statement "+nodeSummary(w.Fset, s))
		}
	}
	pd.GuardsDominate = pd.NilGuard && pd.EmptyGuard && firstUse >= 0
	return pd
}

func isErrReturn(info *types.Info, s ast.Stmt) bool {
	r, ok := s.(*ast.ReturnStmt)
	return ok && len(r.Results) == 1 && nonNilErrorExpr(info, r.Results[0])
}

// returnsParamIndex0: func f(b []byte) uint8 { return b[0] }
func returnsParamIndex0(fd *ast.FuncDecl) bool {
	if fd.Body == nil || len(fd.Body.List) != 1 || fd.Type.Params == nil || len(fd.Type.Params.List) != 1 || len(fd.Type.Params.List[0].Names) != 1 {
		return false
	}
	p := fd.Type.Params.List[0].Names[0].Name
	r, ok := fd.Body.List[0].(*ast.ReturnStmt)
	if !ok || len(r.Results) != 1 {
		return false
	}
	ix, ok := ast.Unparen(r.Results[0]).(*ast.IndexExpr)
	if !ok {
		return false
	}
	id, ok := ast.Unparen(ix.X).(*ast.Ident)
	bl, ok2 := ast.Unparen(ix.Index).(*ast.BasicLit)
	return ok && ok2 && id.Name == p && bl.Value == "0"
}

func extractPlainEncode(w *World, info *types.Info, fd FuncDecl) *PlainEncode {
	pe := &PlainEncode{CallOK: true}
	name := FuncName(fd.Obj)
	prob := func(pos token.Pos, m string) { pe.Problems = append(pe.Problems, Problem{name, pos, m}) }
	recv := recvName(fd.Decl)
	bufVar := ""
	var walkIf func(is *ast.IfStmt)
	walkIf = func(is *ast.IfStmt) {
		be, ok := ast.Unparen(is.Cond).(*ast.BinaryExpr)
		fam := ""
		if ok && be.Op == token.NEQ && isNilIdent(be.Y) {
			if pth := selPath(be.X); len(pth) == 2 && pth[0] == recv {
				fam = pth[1]
			}
		}
		if fam == "" || is.Init != nil {
			prob(is.Pos(), "unclassified condition "+types.ExprString(is.Cond))
			pe.CallOK = false
			return
		}
		pe.Branches = append(pe.Branches, fam)
		// body: err := a.<fam>Encode(data); return data.Bytes(), err
		good := false
		if len(is.Body.List) == 2 {
			as, ok1 := is.Body.List[0].(*ast.AssignStmt)
			r, ok2 := is.Body.List[1].(*ast.ReturnStmt)
			if ok1 && ok2 && len(as.Rhs) == 1 && len(r.Results) == 2 {
				if call, ok := as.Rhs[0].(*ast.CallExpr); ok && len(call.Args) == 1 {
					fn := calleeOf(info, call)
					if fn != nil && fn.Name() == fam+"Encode" && recvTypeName(fn) == "Message" {
						if id, ok := ast.Unparen(call.Args[0]).(*ast.Ident); ok && id.Name == bufVar {
							if eid, ok := ast.Unparen(r.Results[1]).(*ast.Ident); ok && info.Uses[eid] == info.Defs[as.Lhs[0].(*ast.Ident)] {
								good = true
							}
						}
					}
				}
			}
		}
		if !good {
			pe.CallOK = false
			prob(is.Pos(), "branch for "+fam+" does not return the result of "+fam+"Encode on the fresh buffer")
		}
		switch el := is.Else.(type) {
		case *ast.IfStmt:
			walkIf(el)
		case nil:
		default:
			prob(is.Pos(), "unclassified else")
		}
	}
	for k, s := range fd.Decl.Body.List {
		switch st := s.(type) {
		case *ast.AssignStmt:
			if len(st.Lhs) == 1 && len(st.Rhs) == 1 {
				if call, ok := st.Rhs[0].(*ast.CallExpr); ok {
					if id, ok := call.Fun.(*ast.Ident); ok && id.Name == "new" && info.Uses[id] == types.Universe.Lookup("new") {
						bufVar = st.Lhs[0].(*ast.Ident).Name
						continue
					}
				}
			}
			prob(st.Pos(), "unclassified assignment")
		case *ast.IfStmt:
			walkIf(st)
		case *ast.ReturnStmt:
			if k == len(fd.Decl.Body.List)-1 && len(st.Results) == 2 && nonNilErrorExpr(info, st.Results[1]) {
				pe.TailErr = true
				continue
			}
			prob(st.Pos(), "final return is not a provably non-nil error")
		default:
			prob(s.Pos(), "unclassified statement")
		}
	}
	return pe
}
