package main

// ZUC references (ZUC specification v1.6) and the ZUC step / driver checks of C06 / C07.

import (
	"go/token"
	"go/types"
	"sort"
	"encoding/json"
	"fmt"
	"os"
	"strings"

	"golang.org/x/tools/go/ssa"
)

func loadConstTables() map[string][]uint64 {
	b, err := os.ReadFile(specPath("const_tables.json"))
	if err != nil {
		return nil
	}
	var f struct {
		Tables map[string][]uint64 `json:"tables"`
	}
	if json.Unmarshal(b, &f) != nil {
		return nil
	}
	return f.Tables
}

// refZucBR: the bit-reorganisation X0..X3 from the 31-bit cells s0..s15 (held in uint32).
func refZucBR(it *Interp, s [16]BV) [4]BV {
	H := func(x BV) BV { return bvBits(x, 15, 16) } // bits 30..15
	L := func(x BV) BV { return bvBits(x, 0, 16) }
	return [4]BV{bvCat(H(s[15]), L(s[14])), bvCat(L(s[11]), H(s[9])), bvCat(L(s[7]), H(s[5])), bvCat(L(s[2]), H(s[0]))}
}

func refZucL(it *Interp, x BV, rots ...int) BV {
	r := x
	for _, k := range rots {
		r = bvXor(it, r, bvRotl(it, x, k))
	}
	return r
}

func zucTableApp(it *Interp, table string, idx BV) BV {
	r := BV{W: 8, B: make([]*Node, 8)}
	for i := range r.B {
		r.B[i] = it.T.App("global:"+table+"[?]", i, idx.B)
	}
	return r
}

func refZucS(it *Interp, x BV) BV {
	return be32([4]BV{zucTableApp(it, "sbox0", byteOf(x, 0)), zucTableApp(it, "sbox1", byteOf(x, 1)),
		zucTableApp(it, "sbox0", byteOf(x, 2)), zucTableApp(it, "sbox1", byteOf(x, 3))})
}

// refZucF: W and the new R1, R2.
func refZucF(it *Interp, x [4]BV, r1, r2 BV) (W, nr1, nr2 BV) {
	W = bvAdd(it, bvXor(it, x[0], r1), r2)
	w1 := bvAdd(it, r1, x[1])
	w2 := bvXor(it, r2, x[2])
	nr1 = refZucS(it, refZucL(it, bvCat(bvBits(w1, 0, 16), bvBits(w2, 16, 16)), 2, 10, 18, 24))
	nr2 = refZucS(it, refZucL(it, bvCat(bvBits(w2, 0, 16), bvBits(w1, 16, 16)), 8, 14, 22, 30))
	return
}

// refAddM: a + b mod (2^31 - 1) on 31-bit operands held in 32-bit words (the specification's
// AddM: c = a + b; c = (c & 0x7FFFFFFF) + (c >> 31)).
func refAddM(it *Interp, a, b BV) BV {
	c := bvAdd(it, a, b)
	return bvAdd(it, bvAndC(it, c, 0x7FFFFFFF), bvShr(it, c, 31))
}

// refRot31: 31-bit left rotation (the specification's MulByPow2).
func refRot31(it *Interp, x BV, k int) BV {
	return bvAndC(it, bvOr(it, bvShl(it, x, k), bvShr(it, x, 31-k)), 0x7FFFFFFF)
}

// refZucFeedback: s16 = 2^15 s15 + 2^17 s13 + 2^21 s10 + 2^20 s4 + (1 + 2^8) s0 mod (2^31-1),
// plus u in initialisation mode, accumulated in the order of the specification's C code.
func refZucFeedback(it *Interp, s [16]BV, u *BV) BV {
	f := s[0]
	f = refAddM(it, f, refRot31(it, s[0], 8))
	f = refAddM(it, f, refRot31(it, s[4], 20))
	f = refAddM(it, f, refRot31(it, s[10], 21))
	f = refAddM(it, f, refRot31(it, s[13], 17))
	f = refAddM(it, f, refRot31(it, s[15], 15))
	if u != nil {
		f = refAddM(it, f, *u)
	}
	return f
}

func lfsrAgg(it *Interp, name string, n int, field string) (AggV, []BV) {
	a := AggV{Cells: map[string]Value{}}
	var ws []BV
	for i := 0; i < n; i++ {
		v := it.SrcBV(fmt.Sprintf("%s[%d]", name, i), 32)
		a.Cells[fmt.Sprintf(".%s[%d]", field, i)] = v
		ws = append(ws, v)
	}
	return a, ws
}

// zucRoles: the ZUC state types and step functions, found by what they are rather than by what
// they are called: the LFSR is the struct with a [16]uint32 field, the bit-reorganisation output the
// one with a [4]uint32 field, the FSM the one with a [2]uint32 field; BR is the method of *Br taking
// the LFSR (by value or by pointer), F the method of *Fsm taking Br and returning a word, and the
// two LFSR clocks are the methods of *Lfsr (parameters: at most a mode string and a word) whose
// effect on the cells is the standard's LFSRWithInitialisationMode(u) resp. LFSRWithWorkMode() —
// one function with a mode parameter, or two functions.
type zucStep struct {
	fn      *ssa.Function
	modeIdx int // index of the mode string among the parameters (receiver = 0), -1 if none
	uIdx    int // index of the word parameter, -1 if none
	mode    string
}

type zucRoles struct {
	lfsrT, brT, fsmT *types.Named
	sF, xF, rF       string
	br, f            *ssa.Function
	init, work       *zucStep
	problems         []string
}

var zucModes = []string{"InitialisationMode", "WorkMode"}

func arrayField(t *types.Named, n int64) string {
	st, ok := t.Underlying().(*types.Struct)
	if !ok {
		return ""
	}
	name := ""
	for i := 0; i < st.NumFields(); i++ {
		if a, ok := st.Field(i).Type().Underlying().(*types.Array); ok && a.Len() == n {
			if b, ok := a.Elem().Underlying().(*types.Basic); ok && b.Kind() == types.Uint32 {
				if name != "" {
					return ""
				}
				name = st.Field(i).Name()
			}
		}
	}
	return name
}

func namedOf(t types.Type) *types.Named {
	if p, ok := t.(*types.Pointer); ok {
		t = p.Elem()
	}
	n, _ := t.(*types.Named)
	return n
}

// runZucStep evaluates a clock candidate and compares the cells with the reference.
func (zr *zucRoles) runStep(c *cryptoCtx, stp *zucStep, initMode bool) (bool, string, *Interp) {
	it := newCryptoInterp(c.w)
	st := it.NewState()
	obj, recv := it.SymbolicObj("L")
	var s [16]BV
	st.mem[obj] = map[string]Value{}
	for i := range s {
		s[i] = it.SrcBV(fmt.Sprintf("L.%s[%d]", zr.sF, i), 32)
		s[i].B[31] = it.T.Const(false) // the cells are 31-bit values
		st.mem[obj][fmt.Sprintf(".%s[%d]", zr.sF, i)] = s[i]
	}
	u := it.SrcBV("u", 32)
	u.B[31] = it.T.Const(false) // u = W >> 1 is a 31-bit value
	args := make([]Value, len(stp.fn.Params))
	args[0] = recv
	if stp.modeIdx >= 0 {
		args[stp.modeIdx] = StrV{Known: true, S: stp.mode}
	}
	if stp.uIdx >= 0 {
		args[stp.uIdx] = u
	}
	it.Call(stp.fn, args, st, 0)
	var up *BV
	if initMode {
		up = &u
	}
	v := refZucFeedback(it, s, up)
	for i := 0; i < 16; i++ {
		want := v
		if i < 15 {
			want = s[i+1]
		}
		got := it.load(st, Ptr{Obj: obj, Path: fmt.Sprintf(".%s[%d]", zr.sF, i)}, u32T)
		if ok, msg := sameBV(it, got, want); !ok {
			return false, fmt.Sprintf("LFSR cell s%d after the clock: %s", i, msg), it
		}
	}
	return true, "", it
}

func discoverZuc(c *cryptoCtx) *zucRoles {
	zr := &zucRoles{}
	p := c.w.ByRel["security/zuc"]
	if p == nil {
		zr.problems = append(zr.problems, "package security/zuc not found")
		return zr
	}
	sc := p.Types.Scope()
	for _, n := range sc.Names() {
		tn, ok := sc.Lookup(n).(*types.TypeName)
		if !ok {
			continue
		}
		nt, ok := tn.Type().(*types.Named)
		if !ok {
			continue
		}
		if f := arrayField(nt, 16); f != "" && zr.lfsrT == nil {
			zr.lfsrT, zr.sF = nt, f
		} else if f := arrayField(nt, 4); f != "" && zr.brT == nil {
			zr.brT, zr.xF = nt, f
		} else if f := arrayField(nt, 2); f != "" && zr.fsmT == nil {
			zr.fsmT, zr.rF = nt, f
		}
	}
	if zr.lfsrT == nil || zr.brT == nil || zr.fsmT == nil {
		zr.problems = append(zr.problems, "the ZUC state types (structs with a [16]uint32, a [4]uint32 and a [2]uint32 field) are not all present")
		return zr
	}
	methods := func(t *types.Named) []*ssa.Function {
		var out []*ssa.Function
		ms := types.NewMethodSet(types.NewPointer(t))
		for i := 0; i < ms.Len(); i++ {
			if fn := c.w.Prog.MethodValue(ms.At(i)); fn != nil && fn.Blocks != nil && fn.Synthetic == "" {
				out = append(out, fn)
			}
		}
		sort.Slice(out, func(i, j int) bool { return out[i].Name() < out[j].Name() })
		return out
	}
	for _, fn := range methods(zr.brT) {
		if len(fn.Params) == 2 && namedOf(fn.Params[1].Type()) == zr.lfsrT {
			if zr.br != nil {
				zr.problems = append(zr.problems, "two methods of *"+zr.brT.Obj().Name()+" take the LFSR")
			}
			zr.br = fn
		}
	}
	for _, fn := range methods(zr.fsmT) {
		if len(fn.Params) == 2 && namedOf(fn.Params[1].Type()) == zr.brT && fn.Signature.Results().Len() == 1 {
			if zr.f != nil {
				zr.problems = append(zr.problems, "two methods of *"+zr.fsmT.Obj().Name()+" take the reorganised words")
			}
			zr.f = fn
		}
	}
	// clock candidates
	for _, fn := range methods(zr.lfsrT) {
		if fn.Signature.Results().Len() != 0 || len(fn.Params) > 3 {
			continue
		}
		stp := zucStep{fn: fn, modeIdx: -1, uIdx: -1}
		okSig := true
		for i, pr := range fn.Params[1:] {
			b, isB := pr.Type().Underlying().(*types.Basic)
			switch {
			case isB && b.Kind() == types.String && stp.modeIdx < 0:
				stp.modeIdx = i + 1
			case isB && b.Kind() == types.Uint32 && stp.uIdx < 0:
				stp.uIdx = i + 1
			default:
				okSig = false
			}
		}
		if !okSig {
			continue
		}
		modes := []string{""}
		if stp.modeIdx >= 0 {
			modes = zucModes
		}
		for _, m := range modes {
			cand := stp
			cand.mode = m
			if zr.init == nil && cand.uIdx >= 0 {
				if ok, _, it := zr.runStep(c, &cand, true); ok && len(it.Unsup) == 0 {
					cc := cand
					zr.init = &cc
					continue
				}
			}
			if zr.work == nil {
				if ok, _, it := zr.runStep(c, &cand, false); ok && len(it.Unsup) == 0 {
					cc := cand
					zr.work = &cc
				}
			}
		}
	}
	return zr
}

func checkZucSteps(c *cryptoCtx) {
	w := c.w
	zr := discoverZuc(c)
	for _, pr := range zr.problems {
		c.r.Fail("anchor", "security/zuc", pr, token.NoPos, pr, nil)
	}
	if zr.lfsrT == nil {
		return
	}
	if fn := zr.br; fn != nil {
		fname := SSAFuncName(fn)
		c.r.Fn(fname)
		c.r.Site("step.zuc")
		it := newCryptoInterp(w)
		st := it.NewState()
		obj, recv := it.SymbolicObj("B")
		la, ws := lfsrAgg(it, "s", 16, zr.sF)
		var s [16]BV
		copy(s[:], ws)
		for i := range s { // the cells are 31-bit values (invariant checked at the LFSR clock)
			s[i].B[31] = it.T.Const(false)
			la.Cells[fmt.Sprintf(".%s[%d]", zr.sF, i)] = s[i]
		}
		var arg Value = la
		if _, isPtr := fn.Params[1].Type().(*types.Pointer); isPtr {
			lo := it.NewObj("Lin", false)
			st.mem[lo] = map[string]Value{}
			for k, v := range la.Cells {
				st.mem[lo][k] = v
			}
			arg = Ptr{Obj: lo}
		}
		it.Call(fn, []Value{recv, arg}, st, 0)
		want := refZucBR(it, s)
		ok, msg := true, ""
		for i := 0; ok && i < 4; i++ {
			got := it.load(st, Ptr{Obj: obj, Path: fmt.Sprintf(".%s[%d]", zr.xF, i)}, u32T)
			if ok, msg = sameBV(it, got, want[i]); !ok {
				msg = fmt.Sprintf("bit reorganisation word X%d: %s", i, msg)
			}
		}
		c.verdict("step.zuc", fname, "bitReorganization", fn.Pos(), it, ok, msg)
	} else {
		c.r.Site("step.zuc")
		c.r.Fail("step.zuc", "security/zuc", "bitReorganization", token.NoPos, "no method of *"+zr.brT.Obj().Name()+" takes the LFSR: the bit-reorganisation step cannot be identified", nil)
	}
	if fn := zr.f; fn != nil {
		fname := SSAFuncName(fn)
		c.r.Fn(fname)
		c.r.Site("step.zuc")
		it := newCryptoInterp(w)
		st := it.NewState()
		obj, recv := it.SymbolicObj("F")
		ba, xs := lfsrAgg(it, "x", 4, zr.xF)
		var x [4]BV
		copy(x[:], xs)
		r1, r2 := it.SrcBV(fmt.Sprintf("F.%s[0]", zr.rF), 32), it.SrcBV(fmt.Sprintf("F.%s[1]", zr.rF), 32)
		var arg Value = ba
		if _, isPtr := fn.Params[1].Type().(*types.Pointer); isPtr {
			bo := it.NewObj("Bin", false)
			st.mem[bo] = map[string]Value{}
			for k, v := range ba.Cells {
				st.mem[bo][k] = v
			}
			arg = Ptr{Obj: bo}
		}
		W := it.Call(fn, []Value{recv, arg}, st, 0)
		wW, w1, w2 := refZucF(it, x, r1, r2)
		ok, msg := sameBV(it, W, wW)
		if !ok {
			msg = "F output W = (X0 xor R1) + R2: " + msg
		}
		if ok {
			if ok, msg = sameBV(it, it.load(st, Ptr{Obj: obj, Path: fmt.Sprintf(".%s[0]", zr.rF)}, u32T), w1); !ok {
				msg = "F register R1 = S(L1(W1L || W2H)): " + msg
			}
		}
		if ok {
			if ok, msg = sameBV(it, it.load(st, Ptr{Obj: obj, Path: fmt.Sprintf(".%s[1]", zr.rF)}, u32T), w2); !ok {
				msg = "F register R2 = S(L2(W2L || W1H)): " + msg
			}
		}
		c.verdict("step.zuc", fname, "nonlinF", fn.Pos(), it, ok, msg)
	} else {
		c.r.Site("step.zuc")
		c.r.Fail("step.zuc", "security/zuc", "nonlinF", token.NoPos, "no method of *"+zr.fsmT.Obj().Name()+" takes the reorganised words and returns a word: the nonlinear function F cannot be identified", nil)
	}
	for _, role := range []struct {
		name string
		stp  *zucStep
		init bool
	}{{"InitialisationMode", zr.init, true}, {"WorkMode", zr.work, false}} {
		c.r.Site("step.zuc")
		if role.stp == nil {
			// no candidate equals the standard's clock: report against the candidates there are
			detail := "no method of *" + zr.lfsrT.Obj().Name() + " (parameters: at most a mode string and a word) performs the standard's LFSR clock in " + role.name
			reported := false
			ms := types.NewMethodSet(types.NewPointer(zr.lfsrT))
			for i := 0; i < ms.Len() && !reported; i++ {
				fn := c.w.Prog.MethodValue(ms.At(i))
				if fn == nil || fn.Blocks == nil || fn.Signature.Results().Len() != 0 {
					continue
				}
				stp := zucStep{fn: fn, modeIdx: -1, uIdx: -1, mode: role.name}
				okSig := len(fn.Params) <= 3
				for k, pr := range fn.Params[1:] {
					b, isB := pr.Type().Underlying().(*types.Basic)
					switch {
					case isB && b.Kind() == types.String && stp.modeIdx < 0:
						stp.modeIdx = k + 1
					case isB && b.Kind() == types.Uint32 && stp.uIdx < 0:
						stp.uIdx = k + 1
					default:
						okSig = false
					}
				}
				if !okSig || (role.init && stp.uIdx < 0) || (stp.modeIdx < 0 && len(fn.Params) == 3) {
					continue
				}
				if stp.modeIdx < 0 && !role.init && stp.uIdx >= 0 && zr.init != nil && zr.init.fn == fn {
					continue
				}
				ok, msg, it := zr.runStep(c, &stp, role.init)
				if !ok || len(it.Unsup) > 0 {
					c.r.Fn(SSAFuncName(fn))
					c.verdict("step.zuc", SSAFuncName(fn), "state/"+role.name, fn.Pos(), it, ok, msg)
					reported = true
				}
			}
			if !reported {
				c.r.Fail("step.zuc", "security/zuc", "state/"+role.name, token.NoPos, detail, nil)
			}
			continue
		}
		c.r.Fn(SSAFuncName(role.stp.fn))
		ok, msg, it := zr.runStep(c, role.stp, role.init)
		c.verdict("step.zuc", SSAFuncName(role.stp.fn), "state/"+role.name, role.stp.fn.Pos(), it, ok, msg)
	}
}

func checkZucDriver(c *cryptoCtx, n int) {
	fn, fname := c.fn("security/zuc", "Zuc")
	if fn == nil {
		return
	}
	zr := discoverZuc(c)
	c.r.Site("drv.zuc")
	if zr.br == nil || zr.f == nil || zr.init == nil || zr.work == nil {
		c.r.Fail("drv.zuc", fname, fmt.Sprintf("n=%d", n), fn.Pos(), "the driver cannot be compared with the standard's schedule: not every step function was identified (see step.zuc)", nil)
		return
	}
	it := newCryptoInterp(c.w)
	st := it.NewState()
	type zev struct {
		name string
		mode string
		args []BV
	}
	var ev []zev
	count := 0
	sP, xP, rP := pathsOf(zr.sF, 16), pathsOf(zr.xF, 4), pathsOf(zr.rF, 2)
	aggWords := func(v Value, paths []string, t types.Type) []BV {
		if p, isPtr := v.(Ptr); isPtr {
			v = it.load(st, p, t)
		}
		a, ok := v.(AggV)
		var out []BV
		for _, p := range paths {
			var b BV
			if ok {
				b, _ = a.Cells[p].(BV)
			}
			if b.W == 0 {
				b = it.topBV(32)
			}
			out = append(out, b)
		}
		return out
	}
	it.Models[zr.br.String()] = func(it *Interp, st *state, call *ssa.CallCommon, args []Value) (Value, bool) {
		p, ok := args[0].(Ptr)
		if !ok {
			return nil, false
		}
		count++
		ev = append(ev, zev{"BR", "", aggWords(args[1], sP, zr.lfsrT)})
		havocCells(it, st, p.Obj, xP, fmt.Sprintf("e%d", count), 32)
		return nil, true
	}
	it.Models[zr.f.String()] = func(it *Interp, st *state, call *ssa.CallCommon, args []Value) (Value, bool) {
		p, ok := args[0].(Ptr)
		if !ok {
			return nil, false
		}
		count++
		a := aggWords(args[1], xP, zr.brT)
		a = append(a, readCells(it, st, p.Obj, rP, u32T)...)
		ev = append(ev, zev{"F", "", a})
		havocCells(it, st, p.Obj, rP, fmt.Sprintf("e%d", count), 32)
		return it.SrcBV(fmt.Sprintf("e%d.W", count), 32), true
	}
	stepModel := func(stp *zucStep, other *zucStep, roleMode string) func(it *Interp, st *state, call *ssa.CallCommon, args []Value) (Value, bool) {
		return func(it *Interp, st *state, call *ssa.CallCommon, args []Value) (Value, bool) {
			p, ok := args[0].(Ptr)
			if !ok {
				return nil, false
			}
			count++
			mode := roleMode
			if stp.modeIdx >= 0 {
				mode = "?"
				if s, ok := args[stp.modeIdx].(StrV); ok && s.Known {
					mode = s.S
				}
			}
			u := it.constBV(0, 32)
			if stp.uIdx >= 0 {
				u, _ = args[stp.uIdx].(BV)
				if u.W == 0 {
					u = it.topBV(32)
				}
			}
			a := []BV{u}
			a = append(a, readCells(it, st, p.Obj, sP, u32T)...)
			ev = append(ev, zev{"LFSR", mode, a})
			havocCells(it, st, p.Obj, sP, fmt.Sprintf("e%d", count), 32)
			return nil, true
		}
	}
	it.Models[zr.init.fn.String()] = stepModel(zr.init, zr.work, "InitialisationMode")
	if zr.work.fn != zr.init.fn {
		it.Models[zr.work.fn.String()] = stepModel(zr.work, zr.init, "WorkMode")
	}
	key := it.SymbolicBytes(st, "k", 16)
	iv := it.SymbolicBytes(st, "iv", 16)
	res := it.Call(fn, []Value{key, iv, it.constBV(uint64(n), 32)}, st, 0)

	// the standard's schedule
	var s []BV
	for i := 0; i < 16; i++ {
		k := bvZext(it, it.SrcBV(fmt.Sprintf("k[%d]", i), 8), 32)
		v := bvZext(it, it.SrcBV(fmt.Sprintf("iv[%d]", i), 8), 32)
		d := it.SrcBV(fmt.Sprintf("global:ek_d[%d]", i), 32)
		s = append(s, bvOr(it, bvOr(it, bvShl(it, k, 23), bvShl(it, d, 8)), v))
	}
	r := []BV{it.constBV(0, 32), it.constBV(0, 32)}
	var x []BV
	var sched []zev
	e := 0
	fresh := func(paths []string) []BV {
		var out []BV
		for _, p := range paths {
			out = append(out, it.SrcBV(fmt.Sprintf("e%d%s", e, p), 32))
		}
		return out
	}
	br := func() {
		e++
		sched = append(sched, zev{"BR", "", s})
		x = fresh(xP)
	}
	f := func() BV {
		e++
		sched = append(sched, zev{"F", "", append(append([]BV(nil), x...), r...)})
		r = fresh(rP)
		return it.SrcBV(fmt.Sprintf("e%d.W", e), 32)
	}
	lf := func(mode string, u BV) {
		e++
		sched = append(sched, zev{"LFSR", mode, append([]BV{u}, s...)})
		s = fresh(sP)
	}
	for i := 0; i < 32; i++ {
		br()
		W := f()
		lf("InitialisationMode", bvShr(it, W, 1))
	}
	br()
	f()
	lf("WorkMode", it.constBV(0, 32))
	var ks []BV
	for i := 0; i < n; i++ {
		br()
		W := f()
		ks = append(ks, bvXor(it, W, x[3]))
		lf("WorkMode", it.constBV(0, 32))
	}
	describe := func(i int) string {
		switch {
		case i < 96:
			return fmt.Sprintf("initialisation round %d", i/3+1)
		case i < 99:
			return "the discarded first working clock"
		}
		return fmt.Sprintf("keystream word %d", (i-99)/3)
	}
	ok, msg := true, ""
	for i := 0; ok && i < len(sched); i++ {
		if i >= len(ev) {
			ok, msg = false, fmt.Sprintf("%s: the standard performs %s here, the code makes no further step", describe(i), sched[i].name)
			break
		}
		if ev[i].name != sched[i].name || ev[i].mode != sched[i].mode {
			ok, msg = false, fmt.Sprintf("%s: the standard performs %s %s, the code %s %s", describe(i), sched[i].name, sched[i].mode, ev[i].name, ev[i].mode)
			break
		}
		for j := 0; ok && j < len(sched[i].args); j++ {
			if j >= len(ev[i].args) {
				ok, msg = false, describe(i)+": missing operand"
				break
			}
			if ok, msg = sameBV(it, ev[i].args[j], sched[i].args[j]); !ok {
				msg = fmt.Sprintf("%s: input %d of %s: %s", describe(i), j, sched[i].name, msg)
			}
		}
	}
	if ok && len(ev) > len(sched) {
		ok, msg = false, fmt.Sprintf("the code makes %d steps, the standard %d for %d keystream words", len(ev), len(sched), n)
	}
	if ok {
		sl, isSl := res.(SliceV)
		if !isSl || sl.Len != n {
			ok, msg = false, fmt.Sprintf("Zuc(…, %d) does not return %d words", n, n)
		}
		for i := 0; ok && i < n; i++ {
			got := it.load(st, it.sliceElemPtr(sl, i), u32T)
			if ok, msg = sameBV(it, got, ks[i]); !ok {
				msg = fmt.Sprintf("keystream word %d (standard: W xor X3): %s", i, msg)
			}
		}
	}
	_ = strings.Join
	c.verdict("drv.zuc", fname, fmt.Sprintf("n=%d", n), fn.Pos(), it, ok, msg)
}

const cryptoExplanation = "Modular static comparison with the standard algorithms, nothing executed: (1) the constant tables are evaluated from the " +
	"composite literals and compared with the standard's tables (AES S-box and SNOW 3G S_Q recomputed algebraically, ZUC S0/S1/D against frozen copies) and shown read-only; " +
	"(2) every step function is interpreted over go/ssa in the bit-term domain on fully symbolic inputs (table lookups = uninterpreted functions of the index bits) and its result " +
	"words are shown equal, as Boolean functions of all input bits, to the standard's formula (hash-consed structural equality, then ROBDD in two variable orders, then ANF); " +
	"(3) the drivers and security.go are interpreted with the steps / primitives replaced by uninterpreted models that record their operands, and the recorded call schedule, " +
	"operands, key/IV/counter blocks, output bits and MAC evaluation chains are compared with the standard's schedule. Verdicts cover all keys, COUNTs, bearers 0..31, both " +
	"directions and all message bits; loop trip counts are specialised at the listed keystream word counts / bit lengths."

func cryptoMeta(r *Report) {
	r.Explanation = cryptoExplanation
	r.Assumptions = []string{
		"BEARER is a 5-bit and DIRECTION a 1-bit quantity (the property's quantifier; the byte-length wrappers reject anything else)",
		"crypto/aes, crypto/cipher (CTR) and github.com/aead/cmac implement AES-128, CTR mode and CMAC (external libraries, modelled as uninterpreted primitives)",
		"ZUC S0/S1: spec/const_tables.json is a faithful copy of the ZUC specification's tables (validated as permutations with the published corner entries when frozen)",
		"loops over the keystream length / message length are uniform: they are specialised at keystream word counts 0,1,3 and at every listed bit length (all residues mod 8, 32 and 64 in the thorough tier), not proven for unbounded length",
		"ZUC LFSR cells are 31-bit values (the standard's own precondition for AddM / MulByPow2)",
	}
	r.Trusted = []string{"go/ssa construction (x/tools v0.29.0)", "E2 bit-term interpreter, ROBDD and ANF packages (checker/bitflow.go, bdd.go, anf.go)",
		"the checker's transcription of the SNOW 3G, ZUC, UEA2/UIA2, 128-EEA3/EIA3 and TS 33.401 Annex B formulas (props_crypto*.go)"}
}

func propC06(w *World, r *Report, tier string) {
	c := &cryptoCtx{w: w, r: r}
	cryptoMeta(r)
	defer func() {
		r.Expect("tab.values", 5)
		r.Expect("tab.readonly", 5)
		r.Expect("step.snow3g", 3)
		r.Expect("step.zuc", 4)
		r.Expect("drv.snow3g", 3)
		r.Expect("drv.zuc", 3)
		r.Expect("drv.callers", 1)
		r.Expect("pure.no-state", 6)
		r.Expect("iv.nea", 3)
		r.Expect("out.nea", 29)
		r.Expect("wrap.args", 12)
	}()
	checkCryptoTables(w, r, map[string]bool{"security/snow3g": true, "security/zuc": true})
	checkSnowSteps(c)
	checkZucSteps(c)
	for _, n := range []int{0, 1, 3} {
		checkSnowDriver(c, n)
		checkZucDriver(c, n)
	}
	checkCipherCallers(c)
	checkDriverLength(c)
	checkCipherPurity(c, [][2]string{{"security", "NASEncrypt"}, {"security", "NEA1"}, {"security", "NEA2"}, {"security", "NEA3"}, {"security/snow3g", "GetKeyStream"}, {"security/zuc", "Zuc"}})
	checkNEA(c, tier)
	checkWrapper(c, "NASEncrypt", map[int]string{1: "NEA1", 2: "NEA2", 3: "NEA3"}, 0)
}
