#!/bin/bash
# usage: seedcheck.sh <patch.diff> <prop> [<prop>...] : apply a seeded change to /repo, run the checks, undo.
set -u
patch="$1"; shift
cd /repo || exit 2
if ! git diff --quiet; then echo "repo dirty"; exit 2; fi
git apply "$patch" || { echo "patch does not apply"; exit 2; }
for p in "$@"; do
  out=$(cd /verif && bin/nasverif check "$p" --tier quick --no-evidence 2>&1); st=$?
  echo "== $p exit=$st"
  echo "$out" | grep -E "^\s+\S+: \[" | cut -c1-260 | head -6
done
git checkout -- . && git clean -fdq -- . 2>/dev/null
git status --short | head -3
