#!/bin/bash
# usage: neutralverify.sh <worktree> <k> <pkgdir> : confirm a behaviour-preserving variant in its scratch worktree:
# the patch applies, the full suite passes with it, and its differential test against the original passes.
set -u
wt="$1"; k="$2"; pkg="$3"
export GOFLAGS=-mod=mod GOPROXY=off GOSUMDB=off GOTOOLCHAIN=local
cd "$wt" || exit 2
git checkout -q -- . ; rm -f "$pkg"/zz_equiv_test.go
git apply "out/$k/patch.diff" || { echo "patch does not apply"; exit 2; }
cp "out/$k/equiv_test.go" "$pkg/zz_equiv_test.go"
if go test -mod=mod -vet=off -count=1 ./... >/tmp/neutralverify.$$.log 2>&1; then echo "suite+equivalence with patch: PASS"; else echo "suite+equivalence with patch: FAIL"; tail -15 /tmp/neutralverify.$$.log; fi
rm -f /tmp/neutralverify.$$.log "$pkg/zz_equiv_test.go"
git checkout -q -- .
