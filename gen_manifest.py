#!/usr/bin/env python3
"""Regenerates MANIFEST.json from manifest_src.json (checks meta) — keeps commands uniform."""
import json, sys
src = json.load(open('manifest_src.json'))
props = [json.loads(l) for l in open('properties.jsonl')]
ids = [p['id'] for p in props]
checks = []
na = []
for pid in ids:
    c = src['checks'].get(pid)
    if c is None:
        na.append({"property_id": pid, "reason": src['not_applicable'].get(pid, "check not built yet in this session; see DESIGN.md section 4 for the planned static rules")})
        continue
    checks.append({
        "property_id": pid,
        "quick_cmd": f"bin/nasverif check {pid} --tier quick",
        "thorough_cmd": f"bin/nasverif check {pid} --tier thorough",
        "evidence_file": f"evidence/{pid}.json",
        "replay_cmd_template": "bin/nasverif explain --replay {path}",
        "engine": c.get("engine", "nasverif"),
        "level_claimed": {"category": "other", "text": c["text"], "design_ref": c.get("design_ref", f"DESIGN.md section 4, {pid}")},
        "level_note": c["note"],
        "technique": c["technique"],
    })
m = {
    "version": 1,
    "setup_cmd": "cd checker && GOFLAGS=-mod=mod GOPROXY=off GOSUMDB=off GOTOOLCHAIN=local GOWORK=off go build -o ../bin/nasverif .",
    "hooks": {
        "guard": "verif",
        "enable": "no hooks: the checks are static analyses of /repo's working tree (loaded with -tags=verif so guarded files would be included); nothing in /repo is instrumented",
        "baseline_off_cmd": "cd /repo && go test -mod=mod -vet=off -count=1 ./...",
        "source_commits": [],
        "add_only": True,
    },
    "engines": src["engines"],
    "checks": checks,
    "notes": src["notes"],
    "not_applicable": na,
}
json.dump(m, open('MANIFEST.json', 'w'), indent=1)
print(len(checks), "checks;", len(na), "not applicable")
