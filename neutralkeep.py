#!/usr/bin/env python3
# usage: neutralkeep.py <name> <patch.diff> <props,comma> <origin> [<equiv_test.go> [<notes.md>]]
# Keeps a confirmed behaviour-preserving variant under /verif/neutral/<name>/ (patch.diff, meta.json,
# the differential test as equiv_test.go.txt).  `bin/nasverif selftest --neutral` requires every check
# listed in meta.json "props" to stay silent on it.
import sys, os, json, shutil
name, patch, props, origin = sys.argv[1:5]
d = os.path.join('/verif/neutral', name)
os.makedirs(d, exist_ok=True)
shutil.copy(patch, os.path.join(d, 'patch.diff'))
meta = {"props": props.split(','), "origin": origin}
if len(sys.argv) > 5 and sys.argv[5]:
    shutil.copy(sys.argv[5], os.path.join(d, 'equiv_test.go.txt'))
    meta["equivalence"] = "equiv_test.go.txt: differential test against a verbatim copy of the original (passes with the patch, together with the full suite: neutralverify.sh)"
if len(sys.argv) > 6 and sys.argv[6]:
    meta["notes"] = open(sys.argv[6]).read().strip().split('\n')
json.dump(meta, open(os.path.join(d, 'meta.json'), 'w'), indent=1)
print('kept', d)
