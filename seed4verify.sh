#!/bin/bash
# usage: seed4verify.sh <dir> <k> <pkgdir> : confirm a round-4 seeded change (made on top of the refactored tree neutral/R-all) in its scratch repository
set -u
d="$1"; k="$2"; pdir="$3"
export GOFLAGS=-mod=mod GOPROXY=off GOSUMDB=off GOTOOLCHAIN=local
cd "$d" || exit 2
git checkout -q -- . ; rm -f "$pdir"/zz_seed_demo_test.go
demo=$(ls out/$k/demo*_test.go 2>/dev/null | head -1)
[ -z "$demo" ] && { echo "no demo test"; exit 2; }
pkgs=$(go list ./... | grep -v /out)
git apply out/$k/patch.diff || { echo "APPLY-FAIL"; exit 2; }
if go test -vet=off -count=1 $pkgs >/tmp/sv4.$$ 2>&1; then echo "suite-with-patch: PASS"; else echo "suite-with-patch: FAIL"; tail -5 /tmp/sv4.$$; fi
cp "$demo" "$pdir/zz_seed_demo_test.go"
if go test -vet=off -count=1 -run . ./$pdir/ >/tmp/sv4.$$ 2>&1; then echo "demo-with-patch: PASS (unexpected)"; else echo "demo-with-patch: FAIL (expected)"; fi
git checkout -q -- .
if go test -vet=off -count=1 -run . ./$pdir/ >/tmp/sv4.$$ 2>&1; then echo "demo-clean: PASS (expected)"; else echo "demo-clean: FAIL (unexpected)"; tail -5 /tmp/sv4.$$; fi
rm -f "$pdir/zz_seed_demo_test.go" /tmp/sv4.$$
