#!/usr/bin/env python3
"""Regenerates the generated tables of DESIGN.md (between BEGIN/END GENERATED markers) from
evidence/*.json, seeded/*/meta.json and known_findings.json."""
import json, glob, re, os

def rules_table():
    out = ["| property | rule | sites | obligations | discharged |", "|---|---|---|---|---|"]
    for f in sorted(glob.glob('evidence/C*.json')):
        e = json.load(open(f))
        pid = os.path.basename(f)[:-5]
        rules = None
        def find(o):
            nonlocal rules
            if isinstance(o, dict):
                for k, v in o.items():
                    if k == 'rules' and isinstance(v, dict):
                        rules = v
                    else:
                        find(v)
            elif isinstance(o, list):
                for x in o:
                    find(x)
        find(e)
        if not rules:
            continue
        for name in sorted(rules):
            r = rules[name]
            if name == 'vacuity':
                continue
            out.append(f"| {pid} | `{name}` | {r.get('sites',0)} | {r.get('obligations',0)} | {r.get('discharged',0)} |")
    return "\n".join(out)

def seeds_table():
    out = ["| seed | change (as described by its author) | needs | detected by |", "|---|---|---|---|"]
    def key(d):
        m = re.match(r'.*/(C\d+)-(\d+)$', d)
        return (m.group(1), int(m.group(2)))
    for d in sorted(glob.glob('seeded/C*-*'), key=key):
        m = json.load(open(d + '/meta.json'))
        what = " ".join(m.get('breaks', []))
        what = re.sub(r'\s+', ' ', what).replace('|', '/').strip()
        if len(what) > 260:
            what = what[:257] + '...'
        det = m.get('detected_by', '').replace('|', '/')
        needs = m.get('needs_to_manifest', '').replace('|', '/')
        out.append(f"| {os.path.basename(d)} | {what} | {needs} | {det} |")
    return "\n".join(out)

def fixes_table():
    k = json.load(open('known_findings.json'))
    out = ["| property | commit | what failed |", "|---|---|---|"]
    for f in k['fixed']:
        m = re.match(r'fixed: property=(C\d+) (\w+) (.*)', f)
        out.append(f"| {m.group(1)} | `{m.group(2)}` | {m.group(3).replace('|','/')} |")
    return "\n".join(out)

def known_table():
    k = json.load(open('known_findings.json'))
    out = ["| property | key | what fails |", "|---|---|---|"]
    for f in k['findings']:
        out.append(f"| {f['property']} | `{f['key']}` | {f.get('what','').replace('|','/')} |")
    return "\n".join(out)

def neutral_table():
    out = ["| variant | from | checks that must stay silent | what was changed | verdict |", "|---|---|---|---|---|"]
    for d in sorted(glob.glob('neutral/*')):
        if not os.path.exists(d + '/meta.json'):
            continue
        m = json.load(open(d + '/meta.json'))
        notes = m.get('notes') or []
        what = " ".join(notes) if notes else m.get('origin', '')
        what = re.sub(r'\s+', ' ', what).replace('|', '/').strip()
        if len(what) > 240:
            what = what[:237] + '...'
        k = m.get('known_false_alarm')
        verdict = 'silent'
        if k:
            verdict = 'KNOWN LIMITATION (' + ",".join(k['props']) + ' alarm): ' + k['why'].replace('|', '/')
        out.append(f"| {os.path.basename(d)} | {m.get('origin','')} | {','.join(m.get('props', []))} | {what} | {verdict} |")
    return "\n".join(out)

gen = {'NEUTRAL': neutral_table, 'RULES': rules_table, 'SEEDS': seeds_table, 'FIXES': fixes_table, 'KNOWN': known_table}
s = open('DESIGN.md').read()
for name, fn in gen.items():
    pat = re.compile(r'(<!-- BEGIN GENERATED:%s -->\n).*?(<!-- END GENERATED:%s -->)' % (name, name), re.S)
    if pat.search(s):
        s = pat.sub(lambda m: m.group(1) + fn() + "\n" + m.group(2), s)
open('DESIGN.md', 'w').write(s)
print("tables regenerated")
