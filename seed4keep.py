#!/usr/bin/env python3
"""usage: seed4keep.py <group> <k> <prop> <n> <demo-pkg-dir> <caught-by> <needs...> : keep a round-4 seeded change
(made on top of the refactored tree neutral/R-all) under /verif/seeded/<prop>-<n>/ : patch.diff is the change together
with the refactoring (applies to /repo), bug.diff the change alone (applies to the refactored tree)."""
import sys, os, shutil, json, glob
g, k, prop, n, pdir, caught = sys.argv[1:7]
needs = " ".join(sys.argv[7:])
src = f"/tmp/seed4-{g}/out/{k}"
dst = f"/verif/seeded/{prop}-{n}"
os.makedirs(dst, exist_ok=True)
shutil.copy(f"{src}/combined.diff", f"{dst}/patch.diff")
shutil.copy(f"{src}/patch.diff", f"{dst}/bug.diff")
demo = sorted(glob.glob(f"{src}/demo*"))[0]
shutil.copy(demo, f"{dst}/demo_test.go.txt")
notes = open(f"{src}/notes.md").read() if os.path.exists(f"{src}/notes.md") else ""
meta = {
 "property": prop,
 "round": 4,
 "base": "neutral/R-all (40 behaviour-preserving variants applied together): the change was made by an agent that saw only that refactored tree; patch.diff = refactoring + change (applies to /repo), bug.diff = the change alone",
 "breaks": [l for l in notes.strip().split("\n") if l.strip()][0:4],
 "needs_to_manifest": needs,
 "demo": {"file": "demo_test.go.txt", "place_in": pdir, "run": f"apply patch.diff to a copy of /repo, copy the demo to {pdir}/zz_demo_test.go, go test -mod=mod -vet=off -count=1 -run . ./{pdir}/"},
 "confirmed": "seed4verify.sh in the agent's scratch repository (refactored tree): full suite passes with the change; demo fails with it and passes without",
 "checked_with": f"bin/nasverif check {prop} --tier quick --patch patch.diff (applied in memory)",
 "detected_by": caught,
}
json.dump(meta, open(f"{dst}/meta.json", "w"), indent=1)
print("kept", dst)
