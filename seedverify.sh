#!/bin/bash
# usage: seedverify.sh <worktree> <k> <pkgdir-for-demo>   : confirm a seeded change in its scratch worktree
set -u
wt="$1"; k="$2"; pdir="$3"
export GOFLAGS=-mod=mod GOPROXY=off GOSUMDB=off
cd "$wt" || exit 2
git checkout -q -- . ; 
demo=$(ls out/$k/demo*_test.go 2>/dev/null | head -1)
[ -z "$demo" ] && { echo "no demo test"; exit 2; }
pkgs=$(go list ./... | grep -v /out)
git apply out/$k/patch.diff || { echo "APPLY-FAIL"; exit 2; }
if go test -vet=off -count=1 $pkgs >/tmp/sv.$$ 2>&1; then echo "suite-with-patch: PASS"; else echo "suite-with-patch: FAIL"; tail -5 /tmp/sv.$$; fi
cp "$demo" "$pdir/zz_seed_demo_test.go"
if go test -vet=off -count=1 -run . ./$pdir/ >/tmp/sv.$$ 2>&1; then echo "demo-with-patch: PASS (unexpected)"; else echo "demo-with-patch: FAIL (expected)"; fi
git checkout -q -- .
if go test -vet=off -count=1 -run . ./$pdir/ >/tmp/sv.$$ 2>&1; then echo "demo-clean: PASS (expected)"; else echo "demo-clean: FAIL (unexpected)"; tail -5 /tmp/sv.$$; fi
rm -f "$pdir/zz_seed_demo_test.go" /tmp/sv.$$
git status --short | grep -v "^?? out" | head
