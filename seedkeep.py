#!/usr/bin/env python3
"""usage: seedkeep.py <prop> <k> <demo-pkg-dir> <caught-by|MISSED> <needs...>  : keep a confirmed seeded change under /verif/seeded/<prop>-<k>/"""
import sys, os, shutil, json, glob
prop, k, pdir, caught = sys.argv[1:5]
needs = " ".join(sys.argv[5:])
src = os.environ.get("SEED_SRC", f"/tmp/seed-{prop}") + f"/out/{k}"
dst = f"/verif/seeded/{prop}-{int(k) + int(os.environ.get('SEED_OFFSET', '0'))}"
os.makedirs(dst, exist_ok=True)
shutil.copy(f"{src}/patch.diff", f"{dst}/patch.diff")
demo = sorted(glob.glob(f"{src}/demo*"))[0]
# keep the demo under a name the go tool ignores (it is not part of any package of /verif)
shutil.copy(demo, f"{dst}/demo_test.go.txt")
notes = open(f"{src}/notes.md").read() if os.path.exists(f"{src}/notes.md") else ""
meta = {
 "property": prop,
 "breaks": notes.strip().split("\n")[0:3],
 "needs_to_manifest": needs,
 "demo": {"file": "demo_test.go.txt", "place_in": pdir, "run": f"copy to /repo/{pdir}/zz_demo_test.go after `git -C /repo apply patch.diff`, then go test -mod=mod -vet=off -count=1 -run . ./{pdir}/"},
 "confirmed": "seedverify.sh in a scratch worktree: full suite passes with the patch; demo fails with the patch and passes without",
 "checked_with": f"seedcheck.sh patch.diff {prop} (git -C /repo apply; bin/nasverif check {prop}; git checkout)",
 "detected_by": caught,
}
json.dump(meta, open(f"{dst}/meta.json", "w"), indent=1)
print("kept", dst)
